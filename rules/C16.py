# C16 — configuration precedence: command line over environment over defaults (structural part; DESIGN.md §5 C16)
import re
from engine import core
from engine.core import AnalysisBroken, P, T, callee_of, callee_short, cond_atoms, loc_of, strip, subexprs, block_path
from engine.kinds import FactFlow, precedes_on_all_paths, eval_walk, cond_leaves, CountFlow, loop_of
from .common import facts, lib
from engine.core import REPO as core_REPO

EXPLANATION = (
    "Static analysis of the current source. Decided: for every setting of the property (threads, cores, bind, affinity, "
    "process mask, ignore-process-mask, scheduler, pu-step, pu-offset, numa-sensitive) the chain exists with identical "
    "spelling: the option is registered, the handler tests and reads the same registered option, falls back to the ini "
    "key that the built-in defaults define with an environment placeholder, and handle_arguments writes the resolved "
    "value back under that ini key; every option key used anywhere is registered (R1); each handler returns the "
    "command-line value exactly on the paths where the option is present and the configuration value otherwise, and "
    "rejects invalid values with a command_line_error (R2); --pika:ini entries are merged before any handler runs and "
    "every resolved value is written back after its handler (R3); PIKA_COMMANDLINE_OPTIONS tokens are placed before "
    "the real arguments, the preliminary parse and handle_arguments precede the reconfiguration (R4). Not decided: "
    "that every consumer of a resolved value reads the written-back key (only the worker count - R7 - and the scheduler "
    "name - R8 - are followed to their consumer).")
ASSUMPTIONS = ["program_options::variables_map::count(k) > 0 iff option k was given", "${ENV:default} placeholders in the default ini are expanded by the ini module from the environment"]
THOROUGH_CONFIGS = [["-UNDEBUG", "-DPIKA_DEBUG"]]
FLOORS = {"C16.R11": 1, "C16.R12": 10, "C16.R1": 11, "C16.R2": 10, "C16.R3": 8, "C16.R4": 3, "C16.R6": 1, "C16.R7": 1, "C16.R8": 1, "C16.R9": 8, "C16.R10": 1, "C16.R13": 5, "C16.R14": 11, "C16.R15": 1, "C16.R16": 6, "C16.R17": 3, "C16.R18": 7}

SETTINGS = [  # (command line option, ini key, environment variable, handler)
    ("pika:threads", "pika.os_threads", "PIKA_THREADS", "handle_num_threads"),
    ("pika:cores", "pika.cores", "PIKA_CORES", "handle_num_cores"),
    ("pika:bind", "pika.bind", "PIKA_BIND", "handle_affinity_bind"),
    ("pika:affinity", "pika.affinity", "PIKA_AFFINITY", "handle_affinity"),
    ("pika:process-mask", "pika.process_mask", "PIKA_PROCESS_MASK", "handle_process_mask"),
    ("pika:ignore-process-mask", "pika.ignore_process_mask", "PIKA_IGNORE_PROCESS_MASK", None),
    ("pika:scheduler", "pika.scheduler", "PIKA_SCHEDULER", "handle_scheduler"),
    ("pika:pu-step", "pika.pu_step", "PIKA_PU_STEP", "handle_pu_step"),
    ("pika:pu-offset", "pika.pu_offset", "PIKA_PU_OFFSET", "handle_pu_offset"),
    ("pika:numa-sensitive", "pika.numa_sensitive", "PIKA_NUMA_SENSITIVE", "handle_numa_sensitive"),
]


def literals(x):
    return [l["s"] for l in subexprs(x, lambda y: y.get("k") == "lit" and "s" in y)]


def vm_keys(fn):
    """(kind, key, event) for vm.count("k") and vm["k"]"""
    out = []
    for b, i, ev in fn.all_events():
        if ev.get("k") != "call":
            continue
        rtype = (strip(ev.get("recv") or {}) or {}).get("type", "") if isinstance(ev.get("recv"), dict) else ""
        if callee_short(ev) == "count" and ("variables_map" in rtype or "variables_map" in (ev.get("rec") or "") or callee_of(ev).endswith("variables_map::count")):
            for s in literals(ev.get("args", [])):
                out.append(("count", s, ev, (b, i)))
        elif ev.get("op") == "[]" and ("variables_map" in (ev.get("rec") or "") or "abstract_variables_map" in callee_of(ev)):
            for s in literals(ev.get("args", [])):
                out.append(("index", s, ev, (b, i)))
    return out


def run(rep, tier):
    rep.rule("C16.R1", "K8: option / ini key / environment placeholder / write-back chain with identical spelling; every used option key is registered")
    rep.rule("C16.R2", "K4/K8: handlers: count key == value key; command-line value iff present, configuration value otherwise; invalid values throw")
    rep.rule("C16.R3", "K2: --pika:ini merged before the handlers; every resolved value written back after its handler")
    rep.rule("C16.R5", "K8 (writer/reader agreement): the stack-size defaults the configuration writes (hexadecimal literals) are parsed by a reader that accepts that notation; a value that does not parse is not replaced silently by a different number")
    rep.rule("C16.R6", "K2/K8: precedence between PIKA_COMMANDLINE_OPTIONS and the command line: the two token sources are not handed to one parser run as a plain "
             "concatenation while single-valued options exist (one run rejects a repeated single-valued option instead of letting the command line win)")
    rep.rule("C16.R11", "K8 (order-sensitive container): the resolved --pika:ini entries are collected by manage_config::add in the order environment "
             "(PIKA_COMMANDLINE_OPTIONS tokens, prepended) -> command line; the handlers read worker count, cores, scheduler, binding ... from that map, the ini tree "
             "applies the same lines last-wins.  add() therefore lets a later entry replace an earlier one for the same key (operator[] / insert_or_assign), never "
             "first-wins (insert / emplace / try_emplace) - otherwise the environment's --pika:ini=pika.os_threads=N beats the command line's")
    manage_config_rules(rep)
    rep.rule("C16.R12", "K7 (evaluated with modelled look-ups): handle_num_threads resolves the worker count to the command line's --pika:threads when given, otherwise the "
             "configured pika.os_threads (environment / ini / default); the keywords 'all' and 'cores' stand for the number of usable PUs resp. cores, anything else for its "
             "number; 0 is refused; pika.force_min_os_threads is a lower bound")
    num_threads_table(rep)
    rep.rule("C16.R10", "K8 (conflict checks vs. defaults): the check that refuses pu-step / pu-offset / affinity together with a binding description is switched off under the built-in "
             "default of pika.bind (a valid command-line option must not be rejected because of another setting's default)")
    rep.rule("C16.R9", "K8 (environment reach): every handler's fallback reads the runtime configuration's entry for its key (where ${ENV:default} is expanded) - itself or through "
             "the default argument handle_arguments passes - not only the explicit --pika:ini entries")
    rep.rule("C16.R8", "K7/K8 (decision chain): partitioner::setup_schedulers maps the resolved pika.scheduler value to the policy of that name - each name test assigns the enum of the "
             "same name, and no full name is a prefix of a name tested before it (prefix tests accept abbreviations, so order decides)")
    rep.rule("C16.R7", "K4 (must-check, may-analysis): the resolved worker count is the one the runtime uses - the resource partitioner's setup_pools reaches its exit only over the "
             "'equal' edge of a comparison between the threads assigned to the pools and pika.os_threads (or with over-subscription allowed)")
    rep.rule("C16.R16", "K8 (sibling handlers agree on invalid text): a numeric setting that has an environment placeholder in the default table is converted with a conversion "
             "that reports text that is not a number. manage_config::get_value<T>(key, d) and get_entry_as<T>(cfg, key, d) convert with from_string(text, d), which answers d "
             "for any text that does not parse; a handler may use them for such a setting only after the same text went through the reporting from_string(text) "
             "(as handle_num_threads does for pika.os_threads). Otherwise --pika:ini=<key>=abc / PIKA_<KEY>=abc is ignored while the command-line twin rejects it")
    rep.rule("C16.R17", "K4 (nothing unknown is dropped): the first parse runs with unregistered options allowed (the application's own options are not known yet) and hands what it "
             "did not recognise to the late check, which stops start-up for an unknown --pika: option. Every parser run that goes through get_commandline_parser - the one "
             "place that may switch allow_unregistered on - therefore collects its unrecognised tokens (collect_unrecognized) in the same function; a run whose result is stored "
             "directly loses them: an unknown or misspelt --pika: option in an options file (--pika:options-file, @file, <app>.cfg) is silently ignored")
    rep.rule("C16.R18", "K7 (evaluated with modelled look-ups): handle_numa_sensitive resolves to the command line's --pika:numa-sensitive when given - 0, 1 and 2 are accepted, "
             "anything above stops start-up - otherwise to the configured pika.numa_sensitive, otherwise to the default it was handed")
    rep.rule("C16.R4", "K2: prepend_options puts PIKA_COMMANDLINE_OPTIONS before argv; preliminary parse + handle_arguments precede reconfigure")

    PC = facts(rep, lib("command_line_handling", "src/parse_command_line.cpp"), [r"^pika::detail::"])
    CL = facts(rep, lib("command_line_handling", "src/command_line_handling.cpp"), [r"^pika::detail::"])
    LC = facts(rep, lib("command_line_handling", "src/late_command_line_handling.cpp"), [r"^pika::detail::"])
    RC = facts(rep, lib("runtime_configuration", "src/runtime_configuration.cpp"), [r"runtime_configuration::pre_initialize_ini$"])

    # ---- R13: resolved values are not kept across runtime starts
    rep.rule("C16.R13", "K8 (who may remember a setting): the code that resolves settings (command-line handling, runtime_configuration) keeps nothing it derived from the "
             "command line, the configuration, the environment or the process mask in a function-local static: a static is initialised by the first runtime start of the "
             "process and silently reused by every later pika::init/start, whose own command line and process mask then do not decide the value the runtime uses. (A static "
             "built from literals only - a help text - is not a setting.)")
    RCA = facts(rep, lib("runtime_configuration", "src/runtime_configuration.cpp"), [r"^pika::util::"])
    n13 = 0
    SENS = re.compile(r"\b(rtcfg_?|vm_?|cfgmap|get_entry|get_cpubind_mask\w*|get_topology|ini_config\w*|argv|argc|getenv|this)\b")
    for Fx in (CL, PC, LC, RCA):
        nfx = len([f for f in Fx.fns if not f.pattern and f.file.startswith(core.LIBS)])
        if nfx:
            rep.ok("C16.R13", [f for f in Fx.fns if not f.pattern and f.file.startswith(core.LIBS)][0], "%d functions of this unit scanned for function-local statics" % nfx, sites=nfx)
        for f in Fx.fns:
            if f.pattern:
                continue
            top = f
            while top.parent != -1 and top.parent in Fx.by_id:
                top = Fx.by_id[top.parent]
            if not top.file.startswith(core.LIBS):
                continue
            n13 += 1
            pnames = set(p_["name"] for p_ in (top.params or []) if p_.get("name"))
            for b, i, e in f.all_events():
                if not (e.get("k") == "decl" and e.get("static")):
                    continue
                txt = T(e.get("init")) if e.get("init") is not None else ""
                # a lambda called in the initialiser: its body belongs to the initialiser
                body = [g for g in Fx.fns if g.parent == f.id and g.loc.rsplit(":", 1)[0] == f.loc.rsplit(":", 1)[0] and loc_of(e).rsplit(":", 1)[-1] <= g.loc.rsplit(":", 1)[-1]]
                for g in Fx.fns:
                    if g.parent == f.id and ("lambda" in txt or "operator()" in txt):
                        gl = int(g.loc.rsplit(":", 1)[-1]) if g.loc.rsplit(":", 1)[-1].isdigit() else -1
                        el = int(loc_of(e).rsplit(":", 1)[-1]) if loc_of(e).rsplit(":", 1)[-1].isdigit() else -2
                        if abs(gl - el) <= 3:
                            txt += " " + " ".join(T(x) if x.get("k") == "call" else (T(x.get("e")) if x.get("k") == "read" else (T(x.get("init")) if x.get("k") == "decl" and x.get("init") is not None else ""))
                                                  for _, _, x in g.all_events())
                ids = set(re.findall(r"[A-Za-z_]\w*", txt))
                locals_ = set(x.get("var") for _, _, x in f.all_events() if x.get("k") == "decl" and not x.get("static"))
                why = None
                if ids & pnames:
                    why = "the function's argument '%s'" % sorted(ids & pnames)[0]
                elif SENS.search(txt):
                    why = "'%s'" % SENS.search(txt).group(0)
                elif ids & locals_:
                    why = "the local '%s' computed in this call" % sorted(ids & locals_)[0]
                if why:
                    rep.bad("C16.R13", f, loc_of(e), "static-setting:%s:%s" % (top.qname.rsplit("::", 1)[-1], e.get("var")), "%s keeps '%s' in a function-local static initialised from %s: the value "
                            "is fixed by the first runtime start of the process; a later pika::init/start with another command line, configuration or process mask resolves its settings "
                            "correctly but runs with the first start's value" % (top.qname, e.get("var"), why))
                else:
                    rep.ok("C16.R13", f, "static '%s' in %s is built from literals only" % (e.get("var"), top.qname))
    if n13 < 20:
        raise AnalysisBroken("C16.R13: only %d functions of the settings code examined" % n13)

    # ---- R14 = C12.R6: the stack sizes the runtime uses are the resolved ones
    rep.rule("C16.R14", "K8 (cache of configuration entries; the rule of C12.R6 seen from the settings side): the stack sizes the runtime allocates with are the members "
             "runtime_configuration re-reads after every merge of configuration sources, each from the reader of its own class")
    from .common import stack_size_cache_rule
    stack_size_cache_rule(rep, "C16.R14")

    # ---- R15: where the entry function's argv comes from
    rep.rule("C16.R15", "K8 (origin of the entry function's arguments): the strings handed to the user's entry function are the process's own argument strings. They are not the "
             "result of tokenising a text again (split_unix / split_winmain: quotes and backslashes are interpreted) and are not read back from a configuration entry "
             "(get_config_entry: ${...} / $[...] are expanded on the way in): an encoder that is the exact inverse of both would be needed for the arguments to arrive unchanged")
    IH = facts(rep, lib("init_runtime", "src/init_runtime.cpp"), [r"^pika::detail::init_helper$"])
    ihs = [f for f in IH.find(r"^pika::detail::init_helper$") if f.parent == -1]
    if len(ihs) != 1:
        raise AnalysisBroken("init_runtime.cpp: init_helper not found")
    ih = ihs[0]
    from engine.kinds import derives_from
    fcalls = [(b, i, e) for b, i, e in ih.all_events() if e.get("k") == "call" and e.get("recv") is not None and P(e["recv"]) in set(p_["name"] for p_ in ih.params) and len(e.get("args", [])) == 2]
    if not fcalls:
        raise AnalysisBroken("init_helper: the call of the entry function was not found")
    for b, i, e in fcalls:
        vec = re.match(r"^(\w+)", T(strip(e["args"][1])))
        vec = vec.group(1) if vec else None
        srcs = [x.get("rhs") for _, _, x in ih.all_events() if x.get("k") == "write" and x.get("rhs") is not None and vec and T(x["lhs"]).startswith(vec + "[") and T(x["rhs"]) != "nullptr"]
        srcs.append(e["args"][1])
        retok = [t for t in srcs if derives_from(ih, t, lambda txt: re.search(r"\bsplit_(unix|winmain)\(", txt) is not None)]
        reread = [t for t in srcs if derives_from(ih, t, lambda txt: "get_config_entry(" in txt)]
        if retok or reread:
            rep.bad("C16.R15", ih, loc_of(e), "entry-argv-reparsed", "init_helper hands the entry function strings that %s: the command line is rebuilt as one text "
                    "(reconstruct_command_line / encode_and_enquote), stored in the configuration entry pika.reconstructed_cmd_line and tokenised again here; the "
                    "encoding is not the inverse of the expansion and the tokeniser" % " and ".join(
                        ([("come out of split_unix/split_winmain (%s)" % T(retok[0])[:40])] if retok else []) + ([("were read back from a configuration entry")] if reread else [])))
        else:
            rep.ok("C16.R15", ih, "the entry function's argv is not re-tokenised text")
    # positional arguments travel as '--pika:positional=<arg>': the reader takes everything behind the *first* '=' (the one the writer put there);
    # cutting at a later '=' hands the application only the tail of 'key=value' / 'path=/a=b' arguments
    subs = [(b, i, e) for b, i, e in ih.all_events() if e.get("k") == "call" and callee_short(e) == "substr" and e.get("args")]
    for b, i, e in subs:
        off = strip(e["args"][0])
        vs = set(re.findall(r"[A-Za-z_]\w*", T(off)))
        cut = None
        for v in vs:
            ini = local_init(ih, v) if 'local_init' in globals() else None
            if ini is None:
                for _, _, x in ih.all_events():
                    if x.get("k") == "decl" and x.get("var") == v and x.get("init") is not None:
                        ini = x["init"]
            if ini is not None and re.search(r"\.(find\w*|rfind)\(", T(ini)):
                cut = (v, strip(ini))
        if cut is None:
            continue
        cs = callee_short(cut[1]) if isinstance(cut[1], dict) and cut[1].get("k") == "call" else ""
        a0 = T(strip(cut[1]["args"][0])) if isinstance(cut[1], dict) and cut[1].get("args") else ""
        if cs in ("find_first_of", "find") and a0 in ("61", "'='", '"="'):
            rep.ok("C16.R15", ih, "a positional argument is everything behind the first '=' of its --pika:positional= token")
        else:
            rep.bad("C16.R15", ih, loc_of(e), "positional-value-cut", "init_helper cuts the value of a '--pika:positional=<arg>' token at %s(%s) instead of the first '=': a non-pika argument that "
                    "itself contains '=' (N=100, path=/data/run=7/out) reaches the entry function truncated" % (cs, a0))

    # O: registered options
    O = set()
    for fn in PC.fns:
        for b, i, ev in fn.all_events():
            if ev.get("k") == "call" and "options_description_easy_init" in callee_of(ev) and ev.get("args"):
                a0 = strip(ev["args"][0])
                if a0.get("k") == "lit" and "s" in a0:
                    O.add(a0["s"].split(",")[0])
    if len(O) < 25:
        raise AnalysisBroken("only %d registered options found in parse_command_line.cpp" % len(O))
    # D: default ini lines
    pre = RC.one(r"pre_initialize_ini$")[0]
    dlines = []
    for b, i, ev in pre.all_events():
        dlines += literals(ev)
    section = None
    D = {}
    for l in dlines:
        m = re.match(r"^\[([\w.]+)\]$", l.strip())
        if m:
            section = m.group(1)
            continue
        m = re.match(r"^(\w+)\s*=\s*(.*)$", l.strip())
        if m and section:
            D.setdefault(section + "." + m.group(1), []).append(m.group(2))
    if len(D) < 20:
        raise AnalysisBroken("default ini table not found (%d keys)" % len(D))
    # ---- R17: unrecognised tokens of every parser run reach the late check
    n17 = 0
    for fn in PC.fns:
        if fn.pattern or fn.parent != -1 or not fn.file.endswith("parse_command_line.cpp"):
            continue
        runs = [(b, i, e) for b, i, e in fn.all_events() if e.get("k") == "call" and callee_short(e) == "run" and "get_commandline_parser(" in T(e)]
        for b, i, e in runs:
            n17 += 1
            coll = [x for _, _, x in fn.all_events() if x.get("k") == "call" and callee_short(x) == "collect_unrecognized"]
            if coll:
                rep.ok("C16.R17", fn, "%s: the parser run at %s is followed by collect_unrecognized" % (fn.qname.rsplit("::", 1)[-1], loc_of(e).rsplit(":", 1)[-1]))
            else:
                rep.bad("C16.R17", fn, loc_of(e), "unrecognised-dropped:" + fn.qname.rsplit("::", 1)[-1], "%s runs a parser that may allow unregistered options (get_commandline_parser) and "
                        "stores the result without collecting what was not recognised: an unknown --pika: option given in an options file is ignored instead of stopping start-up "
                        "(the same option on the command line is rejected by the late check)" % fn.qname.rsplit("::", 1)[-1])
    if n17 < 3:
        raise AnalysisBroken("C16.R17: only %d parser runs through get_commandline_parser found" % n17)

    # ---- R16: numeric settings and text that is not a number
    helpers = {}
    for hname in ("manage_config::get_value", "get_entry_as"):
        hs = [f for f in CL.fns if f.qname.endswith(hname) and f.pattern]
        if not hs:
            raise AnalysisBroken("helper %s not found in command_line_handling.cpp's unit" % hname)
        dflt = False
        for f in hs:
            pn = [p_["name"] for p_ in f.params][-1] if f.params else None
            for b, i, e in f.all_events():
                if e.get("k") == "call" and callee_short(e) == "from_string" and len(e.get("args", [])) == 2 and pn and T(strip(e["args"][1])) == pn:
                    dflt = True
        helpers[hname.rsplit("::", 1)[-1]] = dflt
    n16 = 0
    for fn in CL.fns:
        if fn.pattern or fn.parent != -1 or not fn.file.endswith("command_line_handling.cpp"):
            continue
        reads = [(b, i, e) for b, i, e in fn.all_events() if e.get("k") == "call" and callee_short(e) in helpers and e.get("type") and "basic_string" not in e["type"]]
        seen16 = set()
        for b, i, e in reads:
            lits = [l for l in literals(e) if l.startswith("pika.")]
            if not lits:
                continue
            key = lits[0]
            if not any(v.startswith("${PIKA_") for v in D.get(key, [])) or (key, callee_short(e)) in seen16:
                continue
            seen16.add((key, callee_short(e)))
            n16 += 1
            # validated: the same key read as text in this function and handed to the reporting from_string
            from engine.kinds import reaching_defs as _rd16, reaches as _re16
            sdecl = {}
            for bb, ii, x in fn.all_events():
                if x.get("k") == "decl" and x.get("init") is not None and key in literals(x) and re.search(r"basic_string|std::string", str(x.get("type")) + " " + str(x.get("rec"))):
                    sdecl[x.get("var")] = (bb, ii)
            validated = False
            for bb, ii, x in fn.all_events():
                if x.get("k") == "call" and callee_short(x) == "from_string" and len(x.get("args", [])) == 1 and T(strip(x["args"][0])) in sdecl:
                    v_ = T(strip(x["args"][0]))
                    if _rd16(fn, v_, (bb, ii)) == frozenset([sdecl[v_]]) and ((bb == b and ii < i) or _re16(fn, bb, b)):
                        validated = True
            if not helpers[callee_short(e)] or validated:
                rep.ok("C16.R16", fn, "%s: %s is converted by a conversion that reports invalid text%s" % (fn.qname.rsplit("::", 1)[-1], key, " (validated as text first)" if validated else ""))
            else:
                rep.bad("C16.R16", fn, loc_of(e), "invalid-ignored:%s:%s" % (key, callee_short(e)), "%s reads the numeric setting %s with %s(.., default), which answers the default for any text that "
                        "is not a number: '--pika:ini=%s=abc' and 'PIKA_%s=abc' are ignored silently (the runtime starts with the default) although the setting's other sources "
                        "reject such text" % (fn.qname.rsplit("::", 1)[-1], key, callee_short(e), key, key.split(".", 1)[1].upper()))
    if n16 < 6:
        raise AnalysisBroken("C16.R16: only %d numeric settings with an environment placeholder found in the handlers" % n16)

    # U: used option keys
    U = []
    for Fx in (PC, CL, LC):
        for fn in Fx.fns:
            for kind, s, ev, pos in vm_keys(fn):
                if s.startswith("pika:"):
                    U.append((s, fn, ev))
    if len(U) < 30:
        raise AnalysisBroken("only %d uses of option keys found" % len(U))
    bad = [(s, fn, ev) for s, fn, ev in U if s not in O]
    if bad:
        for s, fn, ev in bad[:3]:
            rep.bad("C16.R1", fn, loc_of(ev), "unregistered:" + s, "option key '%s' is tested/read but no such option is registered: the command-line setting is silently ignored" % s)
    else:
        rep.ok("C16.R1", "option tables", "all %d uses of option keys refer to one of the %d registered options" % (len(U), len(O)), sites=len(U))

    ha = [f for f in CL.find(r"command_line_handling::handle_arguments$") if f.parent == -1]
    if len(ha) != 1:
        raise AnalysisBroken("handle_arguments not found")
    ha = ha[0]
    W = {}
    for b, i, ev in ha.all_events():
        if ev.get("k") == "call" and callee_short(ev) == "emplace_back" and P(ev.get("recv")) == "ini_config":
            for s in literals(ev.get("args", [])):
                m = re.match(r"^([\w.]+)!?=", s)
                if m:
                    W.setdefault(m.group(1), []).append((b, i, ev))
    handlers = {f.qname.rsplit("::", 1)[-1]: f for f in CL.fns if f.parent == -1 and f.qname.rsplit("::", 1)[-1].startswith("handle_")}
    for opt, ini, env, hname in SETTINGS:
        probs = []
        if opt not in O:
            probs.append("option --%s is not registered" % opt)
        d = D.get(ini)
        if not d:
            probs.append("the built-in defaults have no entry %s" % ini)
        elif not any(re.search(r"\$\{%s(:|\})" % re.escape(env), v) for v in d):
            probs.append("the default for %s does not read the environment variable %s (%s)" % (ini, env, d))
        if ini not in W:
            probs.append("handle_arguments does not write %s back" % ini)
        if hname:
            h = handlers.get(hname)
            if h is None:
                # the handler does not exist as a function of its own (inlined by hand): the chain is read off
                # handle_arguments itself
                h = ha
            if True:
                keys = {s for kind, s, ev, pos in vm_keys(h)}
                if opt not in keys:
                    probs.append("%s does not read option %s (reads %s)" % (hname, opt, sorted(keys)))
                inis = set()
                for b, i, ev in h.all_events():
                    if ev.get("k") == "call" and callee_short(ev) in ("get_value", "get_entry", "get_entry_as"):
                        inis.update(literals(ev.get("args", [])))
                # the default may be passed in by handle_arguments (rtcfg_.get_entry("pika.x", ...))
                for b, i, ev in ha.all_events():
                    if ev.get("k") == "call" and callee_short(ev) == hname:
                        inis.update(s for s in literals(ev.get("args", [])))
                if ini not in inis:
                    probs.append("%s does not fall back to the ini key %s (uses %s)" % (hname, ini, sorted(x for x in inis if x.startswith("pika."))))
        else:
            keys = {s for kind, s, ev, pos in vm_keys(ha)}
            if opt not in keys:
                probs.append("handle_arguments does not read option %s" % opt)
        if probs:
            rep.bad("C16.R1", ha, ha.loc, "chain:" + opt, "; ".join(probs))
        else:
            rep.ok("C16.R1", ha, "--%s <-> %s <-> ${%s} <-> write-back: all spelled consistently" % (opt, ini, env))

    # ---- R9: the environment reaches the handler.  ${ENV:default} placeholders live in the runtime configuration
    # (rtcfg_), the user's explicit --pika:ini entries in cfgmap.  A handler therefore falls back to
    # cfgmap.get_value(key, <value of the runtime configuration>): the runtime configuration's entry for the key is read -
    # by the handler itself or by handle_arguments for the handler's default argument.
    for opt, ini, env, hname in SETTINGS:
        if not hname:
            continue
        h = handlers.get(hname)
        reads = []
        for fn_, evs_ in ((h, list(h.all_events()) if h is not None else []),
                          (ha, [(b, i, e) for b, i, e in ha.all_events() if h is None or (e.get("k") == "call" and callee_short(e) == hname)])):
            for b, i, e in evs_:
                for c_ in subexprs(e, lambda y: isinstance(y, dict) and y.get("k") == "call" and callee_short(y) in ("get_entry", "get_entry_as")):
                    if ini in literals(c_.get("args", [])):
                        reads.append((fn_, c_))
        if reads:
            rep.ok("C16.R9", reads[0][0], "%s: the fallback reads the runtime configuration's %s (where ${%s} is expanded)" % (hname, ini, env))
        else:
            rep.bad("C16.R9", h if h is not None else ha, (h if h is not None else ha).loc, "env-not-consulted:" + opt,
                    "%s falls back to cfgmap (the explicit --pika:ini entries) only: the runtime configuration's entry %s - the one the built-in defaults define as ${%s:...} - is never read, "
                    "so the environment variable %s has no effect (only --%s and --pika:ini=%s=... do)" % (hname, ini, env, env, opt, ini))

    # ---- R10: a conflict check between options must not fire on a built-in default.  check_affinity_description
    # refuses --pika:pu-step / --pika:pu-offset / --pika:affinity together with a binding description; it is switched
    # off by its guard (the binding description is empty).  The description is resolved like every setting - command
    # line, else configuration, else the built-in default - so the guard holds for a user who gave no --pika:bind only
    # if the built-in default of pika.bind is empty.
    cad = [f for f in CL.find(r"command_line_handling::check_affinity_description$") if f.parent == -1]
    if len(cad) != 1:
        raise AnalysisBroken("check_affinity_description not found")
    cad = cad[0]
    guards = [a for _, a, _ in cond_leaves(cad) if a.endswith(".empty()") and "bind" in a]
    thr = [e for _, _, e in cad.all_events() if e.get("k") == "throw"]
    if not guards or not thr:
        raise AnalysisBroken("check_affinity_description: guard / conflict error not recognised")
    dflt = []
    for v in D.get("pika.bind", []):
        m = re.match(r"^\$\{\w+:(.*)\}$", v.strip())
        dflt.append(m.group(1) if m else v.strip())
    if not dflt:
        raise AnalysisBroken("built-in default of pika.bind not found")
    if all(x == "" for x in dflt):
        rep.ok("C16.R10", cad, "the conflict check is keyed on a binding description whose built-in default is empty")
    else:
        rep.bad("C16.R10", cad, cad.loc, "conflict-with-default:pika:bind", "check_affinity_description refuses --pika:pu-step / --pika:pu-offset / --pika:affinity whenever the resolved binding "
                "description is not empty (%s), and the built-in default of pika.bind is '%s': the three options are rejected ('--pika:bind should not be used with ...') although the user gave no "
                "--pika:bind - a command-line option loses against the default of another setting" % (guards[0], dflt[0]))

    # ---- R2
    simple = {"handle_scheduler": ("pika:scheduler", "pika.scheduler"), "handle_affinity": ("pika:affinity", "pika.affinity"),
              "handle_pu_step": ("pika:pu-step", "pika.pu_step"), "handle_pu_offset": ("pika:pu-offset", "pika.pu_offset"),
              "handle_numa_sensitive": ("pika:numa-sensitive", "pika.numa_sensitive"), "handle_process_mask": ("pika:process-mask", "pika.process_mask"),
              "handle_affinity_bind": ("pika:bind", "pika.bind")}
    for hname, (opt, ini) in simple.items():
        h = handlers.get(hname)
        if h is None:
            # resolved inside handle_arguments: the same clauses decided from branch facts - every read of vm[opt] lies
            # under count(opt) != 0, every read of the configuration value for this setting under count(opt) == 0
            ffh_ = FactFlow(ha)
            idx = [(ev, pos) for kind, s_, ev, pos in vm_keys(ha) if kind == "index" and s_ == opt]
            cnt = [(ev, pos) for kind, s_, ev, pos in vm_keys(ha) if kind == "count" and s_ == opt]
            cfg = [(ev, (b, i)) for b, i, ev in ha.all_events() if ev.get("k") == "call" and callee_short(ev) == "get_value" and ini in literals(ev.get("args", []))]
            if not cnt or not idx or not cfg:
                rep.bad("C16.R2", ha, ha.loc, "keys:" + hname, "the resolution of --%s in handle_arguments tests %d / reads %d / falls back %d times: the option is ignored or there is no fallback to %s"
                        % (opt, len(cnt), len(idx), len(cfg), ini))
                continue

            def present(pos):
                vals = set()
                for a, t in (ffh_.before.get(pos) or frozenset()):
                    if "count(" in a and ('"%s"' % opt) in a:
                        inverted = bool(re.match(r"^0 == ", a)) or a.endswith(" == 0")
                        vals.add((not t) if inverted else t)
                return vals
            detail = []
            for ev, pos in idx:
                if present(pos) != {True}:
                    detail.append("vm[\"%s\"] is read at %s without the option being known to be present" % (opt, loc_of(ev)))
            for ev, pos in cfg:
                if present(pos) != {False}:
                    detail.append("the configuration value %s is used at %s although the option may be present" % (ini, loc_of(ev)))
            if detail:
                rep.bad("C16.R2", ha, ha.loc, "precedence:" + hname, "the resolution of --%s (in handle_arguments) does not give the command line precedence over the configuration/environment value: %s" % (opt, "; ".join(detail)))
            else:
                rep.ok("C16.R2", ha, "--%s resolved in handle_arguments: vm[\"%s\"] exactly when the option is present, else cfgmap.get_value(\"%s\", default)" % (opt, opt, ini))
            continue
        ks = vm_keys(h)
        ck = {s for kind, s, ev, pos in ks if kind == "count"}
        ik = {s for kind, s, ev, pos in ks if kind == "index"}
        if ck != {opt} or ik != {opt}:
            rep.bad("C16.R2", h, h.loc, "keys:" + hname, "%s tests %s but reads %s (expected both to be '%s'): the option is ignored or the wrong one is read" % (hname, sorted(ck), sorted(ik), opt))
            continue
        leaves = [a for _, a, _ in cond_leaves(h) if "count(" in a and opt in a]
        local_inverted = None
        if not leaves:
            # 'bool const given = vm.count(k) != 0; if (given)': the branch is on a local that is defined once from the count
            for _, _, e in h.all_events():
                if e.get("k") == "decl" and e.get("init") is not None and "count(" in T(e["init"]) and ('"%s"' % opt) in T(e["init"]):
                    nwr = [1 for _, _, w in h.all_events() if w.get("k") == "write" and P(w["lhs"]) == e["var"]]
                    if not nwr and any(a == e["var"] for _, a, _ in cond_leaves(h)):
                        leaves = [e["var"]]
                        it = T(e["init"]).strip()
                        local_inverted = bool(re.search(r"== 0\)?$|^\(?0 == |^!", it))
                        break
        if not leaves:
            raise AnalysisBroken("%s: branch on vm.count(\"%s\") not found" % (hname, opt))
        atom = leaves[0]
        cpos = [p for _, a, p in cond_leaves(h) if a == atom][0]
        allok = True
        detail = []
        seen_vm = {}
        for present in (True, False):
            # atom may be 'vm.count(k)' or '0 == vm.count(k)' (then truth is inverted)
            inverted = bool(re.match(r"^0 == ", atom)) or atom.endswith(" == 0")
            if local_inverted is not None:
                inverted = local_inverted
            paths = eval_walk(h, h.entry, atom_env={atom: (not present) if inverted else present})
            for evs, end in paths:
                if end != "return":
                    continue
                ret = evs[-1][2]
                val = ret.get("e")
                txt = T(val)
                v0 = strip(val)
                if isinstance(v0, dict) and v0.get("k") == "var" and not v0.get("param"):
                    # last definition of the returned local on this path
                    src = None
                    for b, i, e in evs:
                        if e.get("k") == "decl" and e.get("var") == v0["name"]:
                            src = T(e.get("init"))
                        elif e.get("k") == "write" and P(e["lhs"]) == v0["name"]:
                            src = T(e.get("rhs"))
                        elif e.get("k") == "call" and e.get("op") in ("=", "+=") and e.get("recv") is not None and P(e["recv"]) == v0["name"]:
                            src = (src or "") + " " + T(e["args"][0]) if e.get("op") == "+=" else T(e["args"][0])
                    txt = src or txt
                # one level of data dependence through locals initialised from the option value
                for b, i, e in evs:
                    if e.get("k") == "decl" and e.get("init") is not None and re.search(r"\b%s\b" % re.escape(e["var"]), txt) and ('vm["%s"]' % opt) in T(e["init"]):
                        txt += " " + T(e["init"])
                uses_vm = ('vm["%s"]' % opt) in txt
                uses_cfg = ("get_value" in txt and ini in txt)
                seen_vm[present] = seen_vm.get(present, False) or uses_vm
                if present and uses_cfg:
                    allok = False
                    detail.append("option present but the result comes from %s" % txt[:80])
                if (not present) and (not uses_cfg or uses_vm):
                    allok = False
                    detail.append("option absent but the result comes from %s" % txt[:80])
            loops = [evs for evs, end in paths if end == "loop"]
            for evs in loops:
                t2 = " ".join(T(e.get("init") or e.get("rhs") or (e["args"][0] if e.get("k") == "call" and e.get("args") else None)) for _, _, e in evs if e.get("k") in ("decl", "write", "call"))
                if ('vm["%s"]' % opt) in t2:
                    seen_vm[present] = True
        if not seen_vm.get(True):
            allok = False
            detail.append("with the option present no path takes its value from vm[\"%s\"]" % opt)
        if False:
            if True:
                pass
        if allok:
            rep.ok("C16.R2", h, "%s: returns vm[\"%s\"] exactly when the option is present, else cfgmap.get_value(\"%s\", default)" % (hname, opt, ini))
        else:
            rep.bad("C16.R2", h, h.loc, "precedence:" + hname, "%s does not give the command line precedence over the configuration/environment value: %s" % (hname, "; ".join(sorted(set(detail)))))
    # invalid values
    for hname, what in (("handle_numa_sensitive", "numa_sensitive > 2"), ("handle_num_threads", "threads == 0")):
        h = handlers.get(hname)
        thr = [e for _, _, e in h.all_events() if e.get("k") == "throw" and "command_line_error" in T(e.get("e"))]
        if thr:
            rep.ok("C16.R2", h, "%s rejects invalid values with command_line_error" % hname)
        else:
            rep.bad("C16.R2", h, h.loc, "invalid:" + hname, "%s no longer rejects invalid values (%s) with an error" % (hname, what))
    # handlers that translate keywords (all / cores / a number): with the option present the returned value is
    # (re)assigned after the option was read on every returning path - whatever branch the keyword takes
    for hname, opt in (("handle_num_threads", "pika:threads"), ("handle_num_cores", "pika:cores")):
        h = handlers.get(hname)
        if h is None:
            raise AnalysisBroken("handler %s not found" % hname)
        leaves = [a for _, a, _ in cond_leaves(h) if "count(" in a and opt in a]
        if not leaves:
            raise AnalysisBroken("%s: branch on vm.count(\"%s\") not found" % (hname, opt))
        atom = leaves[0]
        inverted = bool(re.match(r"^0 == ", atom)) or atom.endswith(" == 0")
        stale = []
        npaths = 0
        for evs, end in eval_walk(h, h.entry, atom_env={atom: (not True) if inverted else True}, max_paths=256):
            if end != "return":
                continue
            ret = evs[-1][2]
            v0 = strip(ret.get("e"))
            seq = [e for _, _, e in evs]
            if isinstance(v0, dict) and v0.get("k") == "var":
                cands = [v0["name"]]
            else:
                # 'return (std::max)(threads, min_os_threads)': the locals the returned expression is computed from
                declared = {e.get("var") for e in seq if e.get("k") == "decl"}
                cands = sorted({x["name"] for x in subexprs(ret.get("e"), lambda y: isinstance(y, dict) and y.get("k") == "var" and not y.get("param")) if x.get("name") in declared})
            if not cands:
                continue
            rd = [k_ for k_, e in enumerate(seq) if e.get("k") in ("decl", "write", "call") and ('vm["%s"]' % opt) in T(e.get("init") or e.get("rhs") or e)]
            if not rd:
                continue
            npaths += 1
            fresh = False
            for vname in cands:
                # definitions that do not merely transform the old value (threads = max(threads, min) keeps what it had)
                selfref = re.compile(r"(?<![\w.>])%s(?![\w(])" % re.escape(vname))
                defs = [k_ for k_, e in enumerate(seq) if (e.get("k") == "decl" and e.get("var") == vname) or
                        (e.get("k") == "write" and P(e["lhs"]) == vname and e.get("op", "=") == "=" and not selfref.search(T(e.get("rhs"))))]
                if defs and max(defs) >= min(rd):
                    fresh = True
            if not fresh:
                stale.append(loc_of(ret))
        if npaths == 0:
            raise AnalysisBroken("%s: no returning path reads vm[\"%s\"]" % (hname, opt))
        if stale:
            rep.bad("C16.R2", h, h.loc, "stale-result:" + hname, "%s: with --%s given there are returning paths on which the result still holds the value computed from the "
                    "environment / configuration (not assigned after the option was read): e.g. a keyword value ('all', 'cores') does not override PIKA_THREADS or "
                    "--pika:ini=pika.os_threads=N" % (hname, opt))
        else:
            rep.ok("C16.R2", h, "%s: on all %d returning paths with --%s given the result is assigned after the option was read" % (hname, npaths, opt), sites=npaths)
    hn = handlers.get("handle_num_threads")
    keys = {s for kind, s, ev, pos in vm_keys(hn)}
    if "pika:threads" in keys and any("pika.os_threads" in literals(e) for _, _, e in hn.all_events() if e.get("k") in ("call", "decl")):
        rep.ok("C16.R2", hn, "handle_num_threads reads --pika:threads and falls back to pika.os_threads")
    else:
        rep.bad("C16.R2", hn, hn.loc, "threads-keys", "handle_num_threads must read --pika:threads and fall back to pika.os_threads")

    # ---- R3
    add = [(b, i, ev) for b, i, ev in ha.all_events() if ev.get("k") == "call" and callee_short(ev) == "add" and P(ev.get("recv")) == "cfgmap"]
    hcalls = [(b, i, ev) for b, i, ev in ha.all_events() if ev.get("k") == "call" and callee_short(ev).startswith("handle_") and callee_short(ev) in handlers]
    ffh = FactFlow(ha)
    if len(add) == 1 and hcalls and any(t and "pika:ini" in a for a, t in (ffh.before.get((add[0][0], add[0][1])) or frozenset())) and \
            not any(precedes_on_all_paths(ha, lambda e, ev=ev: e is ev, (add[0][0], add[0][1])) for b, i, ev in hcalls):
        rep.ok("C16.R3", ha, "--pika:ini entries are merged into the configuration before any handler runs")
    else:
        rep.bad("C16.R3", ha, ha.loc, "ini-first", "--pika:ini entries must be merged (cfgmap.add) before the handlers read the configuration")
    # reconfigure() parses ini_config in order and the last line for a key wins: the raw --pika:ini lines go in before
    # any resolved value is written back, otherwise a raw line overrides the value resolved from the dedicated option
    from engine.kinds import reaching_init
    from engine.core import forward
    def raw_append(e, pos):
        if e.get("k") != "call" or "ini_config" not in T(e):
            return False
        if callee_short(e) not in ("copy", "move", "insert", "push_back", "emplace_back", "append_range"):
            return False
        for v in re.findall(r"\b([A-Za-z_]\w*)\.begin\(\)", T(e)) + ([P(e["args"][0])] if callee_short(e) in ("push_back", "emplace_back") and e.get("args") else []):
            ini_ = reaching_init(ha, v, pos)
            if ini_ is not None and "pika:ini" in T(ini_):
                return True
            ws_ = [x for _, _, x in ha.all_events() if x.get("k") in ("write", "call") and "pika:ini" in T(x) and re.search(r"\b%s\b" % re.escape(v), T(x))]
            if ws_:
                return True
        return False
    wb_events = set(id(ev) for lst in W.values() for _, _, ev in lst)
    late = []

    def tr_(st, ev, pos):
        if id(ev) in wb_events:
            return True
        if st and raw_append(ev, pos):
            late.append((pos, ev))
        return st
    forward(ha, False, tr_, None, lambda a, b: a or b, eh=False)
    raws = [(b, i, ev) for b, i, ev in ha.all_events() if raw_append(ev, (b, i))]
    if not raws:
        raise AnalysisBroken("handle_arguments: the place where --pika:ini lines enter ini_config was not found")
    if late:
        rep.bad("C16.R3", ha, loc_of(late[0][1]), "ini-after-writeback", "the raw --pika:ini lines are appended to ini_config after resolved values were written back: reconfigure() "
                "lets the last line win, so --pika:ini=pika.os_threads=3 overrides --pika:threads=5 in the running runtime (while the parsed state reports 5)")
    else:
        rep.ok("C16.R3", ha, "the raw --pika:ini lines enter ini_config before any resolved value is written back (%d append site(s))" % len(raws))
    pairs = {"handle_process_mask": "pika.process_mask", "handle_scheduler": "pika.scheduler", "handle_affinity": "pika.affinity", "handle_affinity_bind": "pika.bind",
             "handle_pu_step": "pika.pu_step", "handle_pu_offset": "pika.pu_offset", "handle_numa_sensitive": "pika.numa_sensitive",
             "handle_num_threads": "pika.os_threads", "handle_num_cores": "pika.cores"}
    for hname, ini in pairs.items():
        hc = [(b, i, ev) for b, i, ev in hcalls if callee_short(ev) == hname]
        if not hc and hname not in handlers:
            # resolved in handle_arguments itself: the test of the option (evaluated on every path) stands for the call
            opt_ = [o for o, i_, e_, h_ in SETTINGS if h_ == hname]
            hc = [(pos[0], pos[1], ev) for kind, s_, ev, pos in vm_keys(ha) if kind == "count" and opt_ and s_ == opt_[0]]
        ws = W.get(ini, [])
        if hc and ws and all(precedes_on_all_paths(ha, lambda e: e is hc[0][2], (b, i)) for b, i, ev in ws):
            rep.ok("C16.R3", ha, "%s's result is written back as %s after the handler ran" % (hname, ini))
        else:
            rep.bad("C16.R3", ha, ha.loc, "write-back:" + ini, "the value resolved by %s is not written back to %s after the handler (the runtime would keep the default)" % (hname, ini))

    # ---- R4
    po = [f for f in CL.find(r"^pika::detail::prepend_options$") if f.parent == -1]
    if not po:
        raise AnalysisBroken("prepend_options not found")
    po = po[0]
    # the returned vector is built from the tokenised option string first, the real arguments are appended after it
    # (names are free: the vector is what is returned, the tokens come from the 'options' parameter, the arguments
    # from the 'args' parameter - identified by position)
    if len(po.params) != 2:
        raise AnalysisBroken("prepend_options: expected (args, options)")
    ARGS, OPTS = po.params[0]["name"], po.params[1]["name"]
    from engine.kinds import derives_from
    word = lambda n, t: re.search(r"(^|[^\w.>])%s($|[^\w])" % re.escape(n), t) is not None
    rets_ = [e for _, _, e in po.all_events() if e.get("k") == "return" and e.get("e") is not None]
    resv = [strip(e["e"]).get("name") for e in rets_ if strip(e["e"]).get("k") == "var" and strip(e["e"]).get("name") != ARGS]
    res = [e for _, _, e in po.all_events() if e.get("k") in ("ctor", "decl") and resv and e.get("var") == resv[0]]
    from_tokens = bool(res) and derives_from(po, res[0].get("init") if res[0].get("k") == "decl" else {"k": "list", "args": res[0].get("args", [])}, lambda t: word(OPTS, t)) \
        if res else False
    if res and not from_tokens:
        from_tokens = any(derives_from(po, a, lambda t: word(OPTS, t)) for r_ in res for a in (r_.get("args") or []))
    mv = [e for _, _, e in po.all_events() if e.get("k") == "call" and callee_short(e) in ("move", "copy", "insert") and resv and word(ARGS, T(e)) and word(resv[0], T(e))]
    appended = bool(mv) and ("back_inserter(%s)" % resv[0] in T(mv[0]) or ("%s.end()" % resv[0]) in T(mv[0]))
    if res and from_tokens and appended:
        rep.ok("C16.R4", po, "prepend_options: result starts with the tokenised option string, the real arguments are appended after it")
    else:
        rep.bad("C16.R4", po, po.loc, "prepend-order", "PIKA_COMMANDLINE_OPTIONS must be placed before the real command line (later occurrences win / are detected): found result=%s, move=%s" % (T(res[0]) if res else None, T(mv[0]) if mv else None))
    call = [f for f in CL.find(r"command_line_handling::call$") if f.parent == -1][0]
    seq = []
    for name in ("prepend_options", "parse_commandline", "handle_arguments", "reconfigure"):
        c = [(b, i, ev) for b, i, ev in call.all_events() if ev.get("k") == "call" and callee_short(ev) == name]
        if not c:
            raise AnalysisBroken("command_line_handling::call: %s not called" % name)
        # clang numbers blocks from the exit upwards: the first occurrence in execution order has the highest block id
        seq.append(sorted(c, key=lambda x: (-x[0], x[1]))[0])
    ok = all(precedes_on_all_paths(call, lambda e, a=a: e is a[2], (b[0], b[1])) for a, b in zip(seq, seq[1:]))
    # the prefix handed to prepend_options comes from the configuration entry pika.commandline.prepend_options
    pcall = seq[0][2]
    pre = [e for _, _, e in call.all_events() if e.get("k") in ("decl",) and e.get("init") is not None and "pika.commandline.prepend_options" in T(e["init"])]
    fed = len(pcall.get("args") or []) >= 2 and derives_from(call, pcall["args"][1], lambda t: "pika.commandline.prepend_options" in t)
    if ok and fed:
        rep.ok("C16.R4", call, "call(): prepend_options -> parse_commandline -> handle_arguments -> reconfigure; prefix taken from pika.commandline.prepend_options")
    else:
        rep.bad("C16.R4", call, call.loc, "call-order", "command_line_handling::call must prepend the configured options, parse, handle the arguments and only then reconfigure")
    if "pika.commandline.prepend_options" in " ".join(dlines) or any("PIKA_COMMANDLINE_OPTIONS" in l for l in dlines):
        rep.ok("C16.R4", pre_name(pre), "the defaults feed PIKA_COMMANDLINE_OPTIONS into pika.commandline.prepend_options")
    else:
        rep.bad("C16.R4", "defaults", "", "env-prepend", "the default configuration no longer maps PIKA_COMMANDLINE_OPTIONS to pika.commandline.prepend_options")

    # ---- R6: can a command-line option override the same option given in PIKA_COMMANDLINE_OPTIONS?
    # program_options rejects a single-valued (non-composing) option that occurs twice in one parser run
    # (multiple_occurrences); values stored first win across separate store() calls.  So the override works only if the
    # two token sources are parsed separately or the prefix is filtered - not if the plain concatenation is parsed once.
    single = set()
    for fn in PC.fns:
        for b, i, ev in fn.all_events():
            if ev.get("k") == "call" and "options_description_easy_init" in callee_of(ev) and len(ev.get("args") or []) >= 2:
                a0 = strip(ev["args"][0])
                if a0.get("k") == "lit" and "s" in a0 and "value<" in T(ev["args"][1]) + str(strip(ev["args"][1]).get("type", "")) and "composing" not in T(ev["args"][1]):
                    single.add(a0["s"].split(",")[0])
    single_settings = sorted(o for o, _, _, _ in SETTINGS if o in single)
    isvec = lambda q: "vector" in (q.get("type") or "") and "string" in (q.get("type") or "") and (q.get("type") or "").rstrip().endswith("&")
    pcs = [f for f in PC.find(r"^pika::detail::parse_commandline$") if f.parent == -1 and any(isvec(q) for q in f.params)]
    if len(pcs) != 1:
        raise AnalysisBroken("parse_commandline(.., std::vector<std::string> const& args, ..) not found")
    pcl = pcs[0]
    AV = [q["name"] for q in pcl.params if isvec(q)][0]
    parsers = [e for _, _, e in pcl.all_events() if (e.get("k") in ("ctor", "construct") and "command_line_parser" in str(e.get("rec", ""))) or
               (e.get("k") == "call" and callee_short(e) in ("command_line_parser", "basic_command_line_parser"))]
    if not parsers:
        parsers = [x for _, _, e in pcl.all_events() for x in subexprs(e, lambda y: isinstance(y, dict) and y.get("k") == "construct" and "command_line_parser" in str(y.get("rec", "")))]
    if not parsers:
        raise AnalysisBroken("parse_commandline: no command_line_parser found")
    whole = [e for e in parsers if e.get("args") and P(e["args"][0]) == AV]
    # on each path exactly one parser run stores into vm?
    stores = [(b, i, e) for b, i, e in pcl.all_events() if e.get("k") == "call" and callee_short(e) == "store"]
    cfs = CountFlow(pcl, lambda ev, pos: 1 if any(ev is x[2] for x in stores) else 0)
    one_run = len(whole) == len(parsers) and cfs.exits <= frozenset([0, 1])
    # does call() hand the concatenation to it?
    pc_calls = [e for _, _, e in call.all_events() if e.get("k") == "call" and callee_short(e) == "parse_commandline"]
    pos_av = [n for n, q in enumerate(pcl.params) if q["name"] == AV][0]
    concat_var = None
    for _, _, e in call.all_events():
        src = None
        if e.get("k") == "call" and e.get("op") == "=" and e.get("args") and "prepend_options(" in T(e["args"][0]):
            src = P(e["recv"])
        elif e.get("k") == "write" and "prepend_options(" in T(e.get("rhs")):
            src = P(e["lhs"])
        elif e.get("k") == "decl" and e.get("init") is not None and "prepend_options(" in T(e["init"]):
            src = e["var"]
        if src:
            concat_var = src
    fed = concat_var is not None and pc_calls and all(len(e.get("args") or []) > pos_av and P(e["args"][pos_av]) == concat_var for e in pc_calls)
    filters = [e for _, _, e in po.all_events() if e.get("k") == "call" and callee_short(e) in ("erase", "remove", "remove_if", "copy_if", "find", "find_if", "count", "count_if", "unique", "any_of", "none_of")]
    has_loop = any(loop_of(po, b) is not None for b in po.blocks)
    if not single_settings:
        rep.ok("C16.R6", pcl, "no single-valued setting option is registered: repeated options accumulate")
    elif filters or has_loop:
        rep.ok("C16.R6", po, "prepend_options filters the configured prefix (%s): which tokens it drops is not decided here" % ", ".join(sorted({callee_short(e) for e in filters}) or ["loop"]))
    elif not (one_run and fed):
        rep.ok("C16.R6", call, "the configured prefix and the real command line are not parsed as one plain concatenation in a single parser run")
    else:
        rep.bad("C16.R6", call, loc_of(pc_calls[0]), "env-cmdline-single-parse",
                "call() hands the plain concatenation [PIKA_COMMANDLINE_OPTIONS tokens] + [command line] (prepend_options does not filter) to parse_commandline, which parses "
                "'%s' in one command_line_parser run and stores it once: a single-valued option (%d of the settings: %s ...) that occurs in both sources is rejected with "
                "multiple_occurrences instead of the command line overriding the PIKA_COMMANDLINE_OPTIONS entry" % (AV, len(single_settings), ", ".join(single_settings[:3])))

    # ---- R7: the resolved worker count is the one the runtime uses.  handle_arguments writes pika.os_threads; the
    # resource partitioner derives the pools' thread counts from PU occupancies (one thread per PU without a binding),
    # so the two can differ.  Every path through setup_pools (new helpers spliced) to a normal exit must take the
    # 'equal' edge of a comparison of the assigned total with pika.os_threads, or the edge on which over-subscription
    # is allowed (may-analysis: 'unchecked' must not reach the exit).  An assertion is not a check: it is compiled out.
    RP = facts(rep, lib("resource_partitioner", "src/detail_partitioner.cpp"), [r"^pika::resource::detail::partitioner::(setup_pools|get_num_threads)$"])
    sp = [f for f in RP.find(r"partitioner::setup_pools$") if f.parent == -1]
    if len(sp) != 1:
        raise AnalysisBroken("partitioner::setup_pools not found")
    sp = sp[0]
    osl = set()
    for _, _, e in sp.all_events():
        if e.get("k") == "decl" and e.get("init") is not None and "pika.os_threads" in T(e["init"]):
            osl.add(e["var"])

    def from_os_threads(atom):
        return "pika.os_threads" in atom or any(re.search(r"(^|[^\w.>])%s($|[^\w])" % re.escape(v), atom) for v in osl)
    seen_cmp = []

    def discharges(atom, truth):
        if " == " in atom and from_os_threads(atom):
            seen_cmp.append(atom)
            return truth
        return "mode_allow_oversubscription" in atom and truth
    from engine.kinds import unchecked_reaches_exit
    at_exit = ["unchecked"] if unchecked_reaches_exit(sp, discharges) else []
    if "unchecked" not in at_exit:
        rep.ok("C16.R7", sp, "setup_pools returns only when the threads assigned to the pools equal pika.os_threads (%s) or over-subscription is allowed" % sorted(set(seen_cmp))[:1])
    else:
        rep.bad("C16.R7", sp, sp.loc, "thread-count-unchecked", "the thread pools are set up without comparing the number of threads assigned to them with the resolved pika.os_threads "
                "(only an assertion in get_num_threads does, and it is compiled out): with --pika:bind=none every PU takes one thread, so --pika:threads=<#PUs + 1> "
                "silently starts #PUs workers while the configuration reports #PUs + 1")

    # ---- R8: the resolved scheduler name selects the policy of that name.  setup_schedulers tests 'value is a prefix of
    # NAME' in sequence (abbreviations are allowed), so the order matters: a full name that is itself a prefix of a name
    # tested earlier (local / local-priority-fifo, static / static-priority) would select the earlier policy.
    RS = facts(rep, lib("resource_partitioner", "src/detail_partitioner.cpp"), [r"^pika::resource::detail::partitioner::setup_schedulers$"])
    ss_ = [f for f in RS.find(r"partitioner::setup_schedulers$") if f.parent == -1]
    if len(ss_) != 1:
        raise AnalysisBroken("partitioner::setup_schedulers not found")
    ss_ = ss_[0]
    chain = []
    b = ss_.entry
    seen_b = set()
    while b is not None and b not in seen_b:
        seen_b.add(b)
        blk = ss_.blocks[b]
        nxt = None
        if blk.cond is not None:
            lits = literals(blk.cond)
            a, pos = cond_atoms(blk.cond)
            if len(lits) == 1 and ".find(" in a:
                tdst = [t for l, t, _ in blk.succ if (l == "true") == pos]
                fdst = [t for l, t, _ in blk.succ if (l == "true") != pos]
                pol = None
                if tdst:
                    for e in ss_.blocks[tdst[0]].events:
                        if e.get("k") == "write" and strip(e.get("rhs") or {}).get("k") == "enum":
                            pol = strip(e["rhs"]).get("name") or T(e["rhs"]).rsplit("::", 1)[-1]
                here = [loc_of(e) for e in blk.events if str(e.get("loc", "")).startswith(core_REPO + "/")]
                chain.append((lits[0], pol, here[-1] if here else ss_.loc))
                nxt = fdst[0] if fdst else None
        if nxt is None:
            succ = [t for l, t, _ in blk.succ]
            nxt = succ[0] if len(succ) == 1 else None
        b = nxt
    if len(chain) < 6:
        raise AnalysisBroken("setup_schedulers: name tests not recognised (%d)" % len(chain))
    shadow = [(ni, nj, lj) for i_, (ni, pi_, li) in enumerate(chain) for nj, pj, lj in chain[i_ + 1:] if ni.startswith(nj) and ni != nj]
    wrong = [(n_, p_, l_) for n_, p_, l_ in chain if p_ is None or p_.rstrip("_").replace("_", "-") != n_]
    if shadow:
        ni, nj, lj = shadow[0]
        rep.bad("C16.R8", ss_, lj, "scheduler-name-shadowed:" + nj, "the scheduler name '%s' is tested after '%s', of which it is a prefix: the prefix test for '%s' already accepts the value '%s', so "
                "--pika:scheduler=%s (from any source) silently runs the %s policy while the configuration reports %s" % (nj, ni, ni, nj, nj, ni, nj))
    elif wrong:
        rep.bad("C16.R8", ss_, wrong[0][2], "scheduler-name-policy:" + wrong[0][0], "the scheduler name '%s' selects policy %s" % (wrong[0][0], wrong[0][1]))
    else:
        rep.ok("C16.R8", ss_, "%d scheduler names: each selects the policy of its name, and no name is shadowed by an earlier prefix test" % len(chain), sites=len(chain))

    # ---- R5: the reader of pika.stacks.*_size understands what the defaults table writes
    SS = facts(rep, lib("runtime_configuration", "src/runtime_configuration.cpp"), [r"runtime_configuration::init_(\w+_)?stack_size$"])
    iss = [f for f in SS.find(r"runtime_configuration::init_stack_size$") if f.parent == -1]
    if not iss:
        raise AnalysisBroken("runtime_configuration::init_stack_size not found")
    iss = iss[0]
    defaults = []
    for f in SS.fns:
        for b, i, ev in f.all_events():
            if ev.get("k") == "call" and callee_short(ev) == "init_stack_size" and len(ev.get("args", [])) == 3:
                lits = literals([ev["args"][1]])
                defaults.append((f, ev, lits[0] if lits else None))
    ini_defaults = [l for l in dlines if re.match(r"^(small|medium|large|huge)_size = \$\{PIKA_\w+_STACK_SIZE:", l)]
    if len(defaults) < 4 or len(ini_defaults) < 4:
        raise AnalysisBroken("stack size defaults not found (init_stack_size callers: %d, ini lines: %d)" % (len(defaults), len(ini_defaults)))
    hexy = [d for _, _, d in defaults if d and d.lower().startswith("0x")] + [l for l in ini_defaults if re.search(r":0[xX][0-9a-fA-F]+\}", l)]
    parsers = [(b, i, ev) for b, i, ev in iss.all_events() if ev.get("k") == "call" and
               re.search(r"(strto(l|ll|ul|ull|imax|umax)|sto(i|l|ll|ul|ull)|from_string|get_entry_as|from_chars|lexical_cast|atoi|atol|atoll)$", callee_short(ev))]
    if not parsers:
        raise AnalysisBroken("init_stack_size: no number parser call recognised")
    for b, i, ev in parsers:
        cs = callee_short(ev)
        base = None
        if re.match(r"^strto", cs) and len(ev.get("args", [])) >= 3:
            base = T(strip(ev["args"][2]))
        elif re.match(r"^sto", cs) and len(ev.get("args", [])) >= 3:
            base = T(strip(ev["args"][2]))
        if base is not None and re.match(r"^[A-Za-z_]\w*$", base):          # a named constant for the base
            for _, _, x in iss.all_events():
                if x.get("k") == "decl" and x.get("var") == base and x.get("init") is not None:
                    base = T(strip(x["init"]))
        accepts_hex = base in ("0", "16")
        if not hexy or accepts_hex:
            rep.ok("C16.R5", iss, "init_stack_size parses with %s(base %s): reads the %d hexadecimal defaults the configuration writes" % (cs, base, len(hexy)), sites=len(hexy))
        else:
            rep.bad("C16.R5", iss, loc_of(ev), "stack-size-reader", "init_stack_size parses pika.stacks.*_size with %s (base %s), which does not accept the 0x notation that the "
                    "defaults table itself writes (%s): the resolved configuration value is dropped silently and the runtime uses a different number "
                    "than the configuration reports" % (cs, base or "10", ", ".join(sorted(set(hexy)))[:160]))

    # ... and once the text has been handed to the parser, the built-in default is not an answer any more: a value that does
    # not parse (abc, 64k) stops start-up; only a missing / empty entry falls back to the default
    from engine.kinds import reaches as _reaches
    dpar = [p_["name"] for p_ in iss.params][-1] if iss.params else None
    if not dpar:
        raise AnalysisBroken("init_stack_size: parameters not found")
    rets = [(b, i, ev) for b, i, ev in iss.all_events() if ev.get("k") == "return" and ev.get("e") is not None and re.search(r"\b%s\b" % re.escape(dpar), T(ev["e"]))]
    silent = [(b, i, ev) for b, i, ev in rets if any((pb == b and pi < i) or _reaches(iss, pb, b) for pb, pi, _ in parsers)]
    if silent:
        b, i, ev = silent[0]
        rep.bad("C16.R5", iss, loc_of(ev), "stack-size-invalid-ignored", "init_stack_size answers '%s' after the configured text was handed to the number parser: a value that does not parse "
                "(--pika:ini=pika.stacks.small_size=abc, PIKA_SMALL_STACK_SIZE=zz) is replaced silently by the built-in default - the configuration reports the text, the runtime "
                "uses another size, start-up does not stop" % T(ev["e"])[:80])
    else:
        rep.ok("C16.R5", iss, "the built-in default is returned only before the parser is consulted (missing / empty entry): a value that does not parse is not replaced silently")


def pre_name(pre):
    return "default ini"


def manage_config_rules(rep):
    MC = facts(rep, lib("util", "src/manage_config.cpp"), [r"^pika::detail::manage_config::add$"])
    fs = [f for f in MC.find(r"manage_config::add$") if f.parent == -1]
    if len(fs) != 1:
        raise AnalysisBroken("manage_config::add not found")
    fn = fs[0]
    stores = []
    for b, i, e in fn.all_events():
        if e.get("k") != "call":
            continue
        r_ = P(e.get("recv")) if e.get("recv") is not None else ""
        if r_ == "this->config_" and callee_short(e) in ("insert", "emplace", "try_emplace", "insert_or_assign", "operator[]", "emplace_hint"):
            stores.append((b, i, e, callee_short(e)))
        if e.get("op") == "[]" and r_ == "this->config_":
            stores.append((b, i, e, "operator[]"))
    if not stores:
        raise AnalysisBroken("manage_config::add: no store into config_ found")
    for b, i, e, how in stores:
        if how in ("insert_or_assign", "operator[]"):
            rep.ok("C16.R11", fn, "a later entry replaces an earlier one for the same key (%s)" % how)
        else:
            # insert preceded by an erase of the same key on every path is last-wins as well
            from engine.kinds import precedes_on_all_paths as _ppa
            if _ppa(fn, lambda x: x.get("k") == "call" and callee_short(x) == "erase" and x.get("recv") is not None and P(x["recv"]) == "this->config_", (b, i)):
                rep.ok("C16.R11", fn, "the key is erased before it is inserted (last entry wins)")
            else:
                rep.bad("C16.R11", fn, loc_of(e), "first-entry-wins", "manage_config::add stores entries with config_.%s, which keeps the FIRST value of a key: the --pika:ini lines are added in the "
                        "order environment (PIKA_COMMANDLINE_OPTIONS) -> command line, so for every setting the handlers read from this map (pika.os_threads, pika.cores, "
                        "pika.scheduler, pika.bind, ...) the environment's entry beats the command line's, while the ini tree applies the same lines last-wins" % how)


def num_threads_table(rep):
    from engine.kinds import interp, eval_tree, Unknown
    H = facts(rep, lib("command_line_handling", "src/command_line_handling.cpp"), [r"handle_num_threads$"])
    fs = [f for f in H.find(r"handle_num_threads$") if f.parent == -1]
    if len(fs) != 1:
        raise AnalysisBroken("handle_num_threads not found")
    fn = fs[0]
    ALL, CORES = 16, 8

    def model(cmdline, configured, force_min):
        def h(e, env):
            cs = callee_short(e)
            t = T(e)
            args = e.get("args") or []
            if cs == "get_number_of_default_threads":
                return ALL
            if cs == "get_number_of_default_cores":
                return CORES
            if cs == "count" and args and "pika:threads" in T(args[0]):
                return 1 if cmdline is not None else 0
            if cs == "as" and "pika:threads" in t:
                if cmdline is None:
                    raise Unknown(t)
                return cmdline
            if cs in ("get_value", "get_entry") and len(args) >= 2:
                key = T(args[0]).strip('"')
                if key == "pika.os_threads" and configured is not None:
                    d = eval_tree(args[1], env)
                    return configured if isinstance(d, str) else (int(configured) if str(configured).isdigit() else d)
                if key == "pika.force_min_os_threads" and force_min is not None:
                    return force_min
                return eval_tree(args[1], env)
            if cs == "to_string" and args:
                return str(eval_tree(args[0], env))
            if cs == "from_string" and args:
                v = eval_tree(args[0], env)
                if isinstance(v, str) and v.isdigit():
                    return int(v)
                if isinstance(v, str):
                    return "<conversion of '%s' to a number fails>" % v
                raise Unknown(t)
            if e.get("op") == "[]" or cs == "operator[]":
                raise Unknown(t)
            raise Unknown(t)
        return h
    table = [("--pika:threads=all", "all", None, None, ALL), ("--pika:threads=cores", "cores", None, None, CORES), ("--pika:threads=5", "5", None, None, 5),
             ("--pika:threads=5 over pika.os_threads=3", "5", "3", None, 5), ("pika.os_threads=3, no option", None, "3", None, 3),
             ("pika.os_threads=cores, no option", None, "cores", None, CORES), ("pika.os_threads=all, no option", None, "all", None, ALL),
             ("nothing given", None, None, None, ALL), ("--pika:threads=2 with pika.force_min_os_threads=6", "2", None, 6, 6), ("--pika:threads=0", "0", None, None, "throw"),
             # a zero from any other source (PIKA_THREADS=0, --pika:ini=pika.os_threads=0) is refused as well, not replaced by a positive count
             ("pika.os_threads=0, no option", None, "0", None, "throw"), ("pika.os_threads=0 with pika.force_min_os_threads=0", None, "0", 0, "throw")]
    for name, cmd, conf, fmin, want in table:
        env = {"$call": model(cmd, conf, fmin)}
        res = interp(fn, env, unknown_both=False)
        outs = set()
        for end, e_, evs, ev in res:
            if end == "return" and ev is not None and ev.get("e") is not None:
                try:
                    outs.add(eval_tree(ev["e"], e_))
                except Unknown:
                    outs.add("?")
            elif end in ("throw", "noreturn"):
                outs.add("throw")
            else:
                outs.add("?" + end)
        if outs == {want}:
            rep.ok("C16.R12", fn, "%s -> %s" % (name, want))
        elif any(str(o).startswith("?") for o in outs):
            raise AnalysisBroken("handle_num_threads: scenario '%s' not decided (%s)" % (name, sorted(map(str, outs))))
        else:
            rep.bad("C16.R12", fn, fn.loc, "thread-count:" + name.replace(" ", "-"), "handle_num_threads resolves '%s' (16 usable PUs on 8 cores) to %s, expected %s" % (name, sorted(map(str, outs)), want))

    # ---- R18: handle_numa_sensitive, evaluated
    HN = facts(rep, lib("command_line_handling", "src/command_line_handling.cpp"), [r"handle_numa_sensitive$"])
    fsn = [f for f in HN.find(r"handle_numa_sensitive$") if f.parent == -1]
    if len(fsn) != 1:
        raise AnalysisBroken("handle_numa_sensitive not found")
    fnn = fsn[0]
    dpar = fnn.params[-1]["name"]

    def model_n(cmdline, configured):
        def h(e, env):
            cs = callee_short(e)
            t = T(e)
            args = e.get("args") or []
            if cs == "count" and args and "pika:numa-sensitive" in T(args[0]):
                return 1 if cmdline is not None else 0
            if cs == "as" and "pika:numa-sensitive" in t:
                if cmdline is None:
                    raise Unknown(t)
                return cmdline
            if cs in ("get_value", "get_entry") and len(args) >= 2:
                return configured if configured is not None else eval_tree(args[1], env)
            raise Unknown(t)
        return h
    for name, cmd, conf, want in (("--pika:numa-sensitive=0", 0, None, 0), ("--pika:numa-sensitive=1", 1, 2, 1), ("--pika:numa-sensitive=2", 2, None, 2),
                                  ("--pika:numa-sensitive=3", 3, None, "throw"), ("--pika:numa-sensitive=7", 7, 1, "throw"),
                                  ("pika.numa_sensitive=1, no option", None, 1, 1), ("nothing given", None, None, 5)):
        res = interp(fnn, {"$call": model_n(cmd, conf), dpar: 5}, unknown_both=False)
        outs = set()
        for end, e_, evs, ev in res:
            if end == "return" and ev is not None and ev.get("e") is not None:
                try:
                    outs.add(eval_tree(ev["e"], e_))
                except Unknown:
                    outs.add("?")
            elif end in ("throw", "noreturn"):
                outs.add("throw")
            else:
                outs.add("?" + end)
        if outs == {want}:
            rep.ok("C16.R18", fnn, "%s -> %s" % (name, want))
        elif any(str(o).startswith("?") for o in outs):
            raise AnalysisBroken("handle_numa_sensitive: scenario '%s' not decided (%s)" % (name, sorted(map(str, outs))))
        else:
            rep.bad("C16.R18", fnn, fnn.loc, "numa-sensitive:" + name.replace(" ", "-"), "handle_numa_sensitive resolves '%s' (default handed in: 5) to %s, expected %s" % (name, sorted(map(str, outs)), want))

