# C02 — no lost wake-up: a resumed task always runs again (structural part; DESIGN.md §5 C02)
import re
from engine.core import AnalysisBroken, P, T, callee_of, callee_short, cond_atoms, loc_of, strip, forward, block_path, walk, subexprs
from engine.kinds import (LockFlow, FactFlow, CountFlow, precedes_on_all_paths, eval_walk, cond_leaves, reaching_init)
from .common import facts, lib, local_init
from . import cvdetail

EXPLANATION = (
    "Static analysis of the current source. Decided: detail::condition_variable::wait/wait_until enqueue the waiter "
    "while the lock is held, release the lock only through an RAII unlock_guard and suspend afterwards; the entry is "
    "removed on every exit and 'signaled' is reported exactly when a notifier consumed the entry (R1); notify_one "
    "dequeues before it resumes, resumes exactly once per dequeued waiter with the lock held, notify_all drains the "
    "queue resuming once per entry (R2); set_thread_state: a target found 'active' either gets a helper task "
    "(create_work bound to set_active_state) or the loop retries, the loop is left only after restore_state succeeded, "
    "and the truth table of the final condition over (previous, new) state enqueues exactly when a not-pending task "
    "becomes pending (R3); set_active_state aborts exactly when the state tag changed and otherwise retries once with "
    "retry_on_active (R4); execution_agent resumes with 'pending', suspends with 'suspended' and yields exactly the "
    "requested state after recording the worker (R5). That the worker publishes the yielded state by tagged compare-exchange is decided under C01.R1-R3. "
    "Not decided: liveness of the helper task, timed suspension, priority inversion.")
ASSUMPTIONS = ["thread_data::restore_state / set_state_tagged are compare-exchange based (decided in C01.R2)",
               "agent_ref::suspend/resume forward to execution_agent (virtual dispatch not followed)"]
THOROUGH_CONFIGS = [["-UNDEBUG", "-DPIKA_DEBUG"]]
FLOORS = {"C02.R1": 6, "C02.R2": 6, "C02.R3": 4, "C02.R4": 2, "C02.R5": 4, "C02.R6": 5, "C02.R8": 1, "C02.R9": 1, "C02.R10": 3}

TSS = "pika::threads::detail::thread_schedule_state"


def run(rep, tier):
    rep.rule("C02.R1", "K2: cv wait: enqueue (locked) -> RAII unlock -> suspend; reset guard; signaled iff entry consumed")
    rep.rule("C02.R2", "K2/K3: notify_one resumes the dequeued waiter exactly once after consuming the entry; notify_all drains")
    rep.rule("C02.R3", "K7/K3: set_thread_state: active => helper task or retry; loop exit only after restore_state; enqueue truth table")
    rep.rule("C02.R4", "K7: set_active_state aborts iff the tag changed; otherwise retries once with retry_on_active")
    rep.rule("C02.R6", "K6 (must-pass-through): every wake-up entry point (execution_agent::do_resume/resume/abort, agent_ref::resume/abort, the join callback pika::resume_thread) reaches its set_thread_state(.., pending, ..) / forwarding call on every path - a wake-up is never filtered by a look at the target's current state (the target may still be 'active' in the window before it finished suspending)")
    rep.rule("C02.R9", "K4 (a queued task's word is not rewritten): set_thread_state leaves a target that already is in the requested schedule state alone - the state word of a "
             "*pending* task (it sits in a run queue, a worker is about to claim it with a tagged compare-exchange) is not compare-exchanged again just to change its restart "
             "state: the new tag makes the worker's claim fail, the worker takes the task for somebody else's and drops the queue entry, and the task stays 'pending' in no queue "
             "for ever.  Every modification of the word in set_thread_state is therefore reached only with 'new state != observed state' established")
    rep.rule("C02.R8", "K5/K8 (sibling writers of the packed state word): the worker itself rewrites the state_ex part of an *active* task's word (set_state_ex in thread_data_stack*::call, "
             "after it installed 'active'); so the compare-exchange with which the worker publishes the state a task yielded (switch_status::store_state -> restore_state) takes the state_ex "
             "part of its expected word from a fresh load - an expected word recorded at activation fails after any wake-up whose restart state is not 'signaled' (interrupt/abort), the task stays 'active' for ever and its next wake-up is never delivered")
    rep.rule("C02.R7", "K10 (threshold relation): the retry helper for a wake-up aimed at an 'active' target is an unhinted *staged* task; idle workers convert other queues' staged tasks only when enable_stealing_staged is true, so its idle-count threshold must lie strictly below the bound at which the scheduling loop resets the idle counter (otherwise it is never true and the wake-up waits for one particular, possibly blocked, worker)")
    rep.rule("C02.R5", "K8: execution_agent passes pending/suspended and yields the requested state after recording the worker")

    CVF = cvdetail.load(rep)
    cvdetail.wait_rules(rep, "C02.R1", CVF)
    cvdetail.notify_rules(rep, "C02.R2", CVF)

    F = facts(rep, lib("threading_base", "src/set_thread_state.cpp"), [r"^pika::threads::detail::set_(thread|active)_state$"])
    enum = F.enums.get(TSS)
    if not enum:
        raise AnalysisBroken("enum %s not found" % TSS)
    sts = F.one(r"::set_thread_state$")
    sts = [f for f in sts if f.file.endswith("set_thread_state.cpp")]
    if len(sts) != 1:
        raise AnalysisBroken("set_thread_state definition not unique")
    fn = sts[0]
    ff = FactFlow(fn)
    # names are derived from roles: the requested state is the 2nd parameter, 'previous state' is the local that
    # receives ...->get_state(), its scheduling state the local(s) initialised with <previous>.state()
    NEW = fn.params[1]["name"]
    prevs = [P(e.get("recv") if e.get("k") == "call" else e["lhs"]) for _, _, e in fn.all_events()
             if ((e.get("k") == "call" and e.get("op") == "=" and e.get("args") and callee_short(strip(e["args"][0])) == "get_state") or
                 (e.get("k") == "write" and isinstance(strip(e.get("rhs")), dict) and callee_short(strip(e["rhs"])) == "get_state"))]
    if len(set(prevs)) != 1:
        raise AnalysisBroken("set_thread_state: the local holding the previous state was not found (%s)" % sorted(set(prevs)))
    PREV = prevs[0]
    pvals = sorted(set(e.get("var") for _, _, e in fn.all_events() if e.get("k") == "decl" and e.get("init") is not None and T(strip(e["init"])) == PREV + ".state()"))
    if len(pvals) != 1:
        raise AnalysisBroken("set_thread_state: the local holding previous.state() was not found (%s)" % pvals)
    PVAL = pvals[0]
    active_atom = "%s == %s" % tuple(sorted([PVAL, TSS + "::active"]))
    # R9: the word is modified only when the requested state differs from the observed one
    same_atom = "%s == %s" % tuple(sorted([NEW, PVAL]))
    mods = [(b, i, ev) for b, i, ev in fn.all_events() if ev.get("k") == "call" and callee_short(ev) in ("restore_state", "set_state", "set_state_tagged") and
            ev.get("recv") is not None and "get_thread_id_data" in T(ev["recv"])]
    if not mods:
        raise AnalysisBroken("set_thread_state: the modification of the target's state word was not found")
    for b, i, ev in mods:
        fb = ff.before.get((b, i)) or frozenset()
        if (same_atom, False) in fb or any((not t) and re.match(r"^%s == |== %s$" % (re.escape(NEW), re.escape(NEW)), a) and PVAL in a for a, t in fb):
            rep.ok("C02.R9", fn, "the state word is modified at %s only after 'requested state != observed state' was established" % loc_of(ev))
        else:
            rep.bad("C02.R9", fn, loc_of(ev), "requeued-word-rewritten", "set_thread_state modifies the target's state word on a path where the requested schedule state may equal the observed one "
                    "(e.g. pending -> pending with another restart state): the tag of a task that sits in a run queue changes, the claiming worker's compare-exchange fails, the worker "
                    "drops the queue entry ('no execution') and the task stays pending in no queue - it never runs again although its wake-up was issued")
    # (a) active case
    rets = [(b, i, ev) for b, i, ev in fn.all_events() if ev.get("k") == "return" and (active_atom, True) in (ff.before.get((b, i)) or ())]
    cw = lambda e: e.get("k") == "call" and callee_short(e) == "create_work"
    reload_ = lambda e: (e.get("k") == "call" and e.get("op") == "=" and P(e.get("recv")) == PREV) or \
        (e.get("k") == "write" and P(e["lhs"]) == PREV)
    if not rets:
        raise AnalysisBroken("set_thread_state: no return under 'previous state == active'")
    for b, i, ev in rets:
        fb = ff.before[(b, i)]
        retry = ("retry_on_active", True) in fb
        created = precedes_on_all_paths(fn, cw, (b, i), reset_pred=reload_)
        if retry and created:
            rep.ok("C02.R3", fn, "active target: returns at %s only after create_work(set_active_state helper) under retry_on_active" % loc_of(ev))
        else:
            rep.bad("C02.R3", fn, loc_of(ev), "active-return", "with the target 'active' the function returns without having scheduled the "
                    "set_active_state helper (retry_on_active established: %s, create_work on every path: %s): the wake-up is dropped"
                    % (retry, created), path=[{"block": x} for x in block_path(fn, b)])
    cws = [(b, i, ev) for b, i, ev in fn.all_events() if cw(ev)]
    if len(cws) != 1:
        rep.bad("C02.R3", fn, fn.loc, "create-work-count", "expected exactly one create_work in set_thread_state, found %d" % len(cws))
    else:
        b, i, ev = cws[0]
        dat = local_init(fn, P(ev["args"][1]))
        ctor = [e for _, _, e in fn.all_events() if e.get("k") == "ctor" and e.get("var") == P(ev["args"][1])]
        binds = ctor and subexprs(ctor[0], lambda x: x.get("k") == "fn" and x.get("name") == "pika::threads::detail::set_active_state")
        if binds:
            rep.ok("C02.R3", fn, "the helper task is bound to set_active_state")
        else:
            rep.bad("C02.R3", fn, loc_of(ev), "helper-target", "the helper task created for an active target does not run set_active_state")
    # (b) loop exit only after restore_state succeeded; (c) truth table of the final enqueue
    sched = [(b, i, ev) for b, i, ev in fn.all_events() if ev.get("k") == "call" and callee_short(ev) == "schedule_thread"]
    if len(sched) != 1:
        rep.bad("C02.R3", fn, fn.loc, "schedule-count", "expected exactly one schedule_thread in set_thread_state, found %d" % len(sched))
    else:
        b, i, ev = sched[0]
        fb = ff.before[(b, i)]
        if any(t and "restore_state(" in a for a, t in fb):
            rep.ok("C02.R3", fn, "the enqueue is reached only after restore_state(...) returned true")
        else:
            rep.bad("C02.R3", fn, loc_of(ev), "enqueue-without-cas", "schedule_thread reachable without a successful restore_state: a task whose "
                    "state was not changed by this call is enqueued (double execution) or the change is lost")
        # find the block after the loop where previous_state_val is re-derived
        d2 = [(bb, ii) for bb, ii, e in fn.all_events() if e.get("k") == "decl" and e.get("var") == PVAL]
        start = max(d2, key=lambda p: (-p[0], p[1]))      # the declaration after the loop has the smallest block id
        start = sorted(d2, key=lambda p: p[0])[0]
        pend = {"pending", "pending_boost"}
        mism = []
        n = 0
        for pn, pv in enum.items():
            for nn, nv in enum.items():
                if nn == "active":
                    continue          # refused at entry
                env = {PVAL: pv, NEW: nv}
                paths = eval_walk(fn, start[0], tree_env=env)
                reached = any(any(e is ev for _, _, e in evs) for evs, end in paths)
                allreach = all(any(e is ev for _, _, e in evs) for evs, end in paths)
                want = (pn not in pend) and (nn in pend)
                n += 1
                if want != reached or (want and not allreach):
                    mism.append((pn, nn, want, reached))
        if mism:
            rep.bad("C02.R3", fn, loc_of(ev), "enqueue-table", "the condition guarding schedule_thread disagrees with 'previous not pending and new "
                    "pending' for (previous, new, expected, found): %s" % mism[:6])
        else:
            rep.ok("C02.R3", fn, "enqueue condition equals 'previous ∉ {pending,pending_boost} ∧ new ∈ {pending,pending_boost}' on all %d (previous,new) pairs" % n)

    # ---- R4
    sas = [f for f in F.find(r"::set_active_state$") if f.file.endswith("set_thread_state.cpp")]
    if len(sas) != 1:
        raise AnalysisBroken("set_active_state not found")
    fn = sas[0]
    call = [(b, i, ev) for b, i, ev in fn.all_events() if ev.get("k") == "call" and callee_of(ev) == "pika::threads::detail::set_thread_state"]
    if len(call) != 1:
        rep.bad("C02.R4", fn, fn.loc, "retry-count", "set_active_state must call set_thread_state exactly once (found %d)" % len(call))
    else:
        b, i, ev = call[0]
        args = ev["args"]
        A_NEW = fn.params[1]["name"]
        A_PREV = fn.params[4]["name"] if len(fn.params) > 4 else "previous_state"
        curs = sorted(set(e.get("var") for _, _, e in fn.all_events() if e.get("k") == "decl" and e.get("init") is not None and callee_short(strip(e["init"])) == "get_state"))
        A_CUR = curs[0] if len(curs) == 1 else "current_state"
        if len(args) >= 6 and T(strip(args[5])) == "true" and P(args[1]) == A_NEW:
            rep.ok("C02.R4", fn, "retries with the requested state and retry_on_active = true")
        else:
            rep.bad("C02.R4", fn, loc_of(ev), "retry-args", "the retry must pass the requested new state and retry_on_active=true")
        A = "%s.state() == %s.state()" % tuple(sorted([A_CUR, A_PREV]))
        B = "%s == %s" % tuple(sorted([A_CUR, A_PREV]))
        leaves0 = {a for _, a, _ in cond_leaves(fn)}
        if A not in leaves0:
            A = "%s.state() == %s.state()" % (A_CUR, A_PREV) if ("%s.state() == %s.state()" % (A_CUR, A_PREV)) in leaves0 else "%s.state() == %s.state()" % (A_PREV, A_CUR)
        if B not in leaves0:
            B = "%s == %s" % (A_CUR, A_PREV) if ("%s == %s" % (A_CUR, A_PREV)) in leaves0 else "%s == %s" % (A_PREV, A_CUR)
        leaves = {a for _, a, _ in cond_leaves(fn)}
        if A not in leaves or B not in leaves:
            rep.bad("C02.R4", fn, fn.loc, "abort-cond", "expected tests of %s and %s (tag comparison); found %s" % (A, B, sorted(l for l in leaves if "state" in l)))
        else:
            decl = [(bb, ii) for bb, ii, e in fn.all_events() if e.get("k") == "decl" and e.get("var") == A_CUR]
            mism = []
            for av in (True, False):
                for bv in (True, False):
                    paths = eval_walk(fn, decl[0][0], atom_env={A: av, B: bv, "thrd": True})
                    reached = all(any(e is ev for _, _, e in evs) for evs, end in paths)
                    anyreach = any(any(e is ev for _, _, e in evs) for evs, end in paths)
                    want = not (av and not bv)
                    if want != reached or want != anyreach:
                        mism.append((av, bv, want, reached))
            if mism:
                rep.bad("C02.R4", fn, loc_of(ev), "abort-table", "set_active_state must abort exactly when the state value is unchanged but the "
                        "tag differs; mismatches (same state, identical word, expect retry, found): %s" % mism)
            else:
                rep.ok("C02.R4", fn, "aborts iff state()==previous.state() and the tagged word differs (4 valuations)")

    # ---- R5
    E = facts(rep, lib("threading_base", "src/execution_agent.cpp"), [r"^pika::threads::detail::execution_agent::(do_resume|do_yield|suspend|resume|yield)$"])
    one = lambda n: E.one(r"execution_agent::%s$" % n)[0]
    dr = one("do_resume")
    c = [ev for _, _, ev in dr.all_events() if ev.get("k") == "call" and callee_of(ev) == "pika::threads::detail::set_thread_state"]
    if len(c) == 1 and T(strip(c[0]["args"][1])).endswith("::pending") and P(c[0]["args"][2]) == "statex" and T(strip(c[0]["args"][5])) == "true":
        rep.ok("C02.R5", dr, "do_resume: set_thread_state(.., pending, statex, .., retry_on_active=true)")
    else:
        rep.bad("C02.R5", dr, dr.loc, "resume-args", "do_resume must request 'pending' with retry_on_active=true")
    su = one("suspend")
    c = [ev for _, _, ev in su.all_events() if ev.get("k") == "call" and callee_short(ev) == "do_yield"]
    if len(c) == 1 and T(strip(c[0]["args"][1])).endswith("::suspended"):
        rep.ok("C02.R5", su, "suspend yields with thread_schedule_state::suspended")
    else:
        rep.bad("C02.R5", su, su.loc, "suspend-state", "execution_agent::suspend must yield with 'suspended'")
    rs = one("resume")
    c = [ev for _, _, ev in rs.all_events() if ev.get("k") == "call" and callee_short(ev) == "do_resume"]
    if len(c) == 1 and T(strip(c[0]["args"][1])).endswith("::signaled"):
        rep.ok("C02.R5", rs, "resume passes thread_restart_state::signaled")
    else:
        rep.bad("C02.R5", rs, rs.loc, "resume-state", "execution_agent::resume must resume with 'signaled'")
    dy = one("do_yield")
    y = [(b, i, ev) for b, i, ev in dy.all_events() if ev.get("k") == "call" and callee_short(ev) == "yield" and "self_" in P(ev.get("recv"))]
    if len(y) != 1:
        rep.bad("C02.R5", dy, dy.loc, "yield-count", "do_yield must switch out exactly once (found %d self_.yield calls)" % len(y))
    else:
        b, i, ev = y[0]
        a0 = strip(ev["args"][0])
        forwards = a0.get("k") == "construct" and a0.get("args") and P(a0["args"][0]) == dy.params[1]["name"]
        rec = precedes_on_all_paths(dy, lambda e: e.get("k") == "call" and callee_short(e) == "set_last_worker_thread_num", (b, i))
        if forwards and rec:
            rep.ok("C02.R5", dy, "do_yield records the worker and yields exactly the requested state")
        else:
            rep.bad("C02.R5", dy, loc_of(ev), "yield-args", "do_yield must forward the requested state unmodified (%s) after set_last_worker_thread_num (%s)" % (forwards, rec))

    # ---- R6: wake-up entry points deliver unconditionally
    from engine.kinds import bypass_path
    from .common import join_wakeup
    TH = facts(rep, lib("threading", "src/thread.cpp"), [r"^pika::thread::join$", r"^pika::resume_thread$"])
    _, JCB, _, _ = join_wakeup(TH)          # the exit callback join() registers (pika::resume_thread today)
    AR = facts(rep, lib("execution_base", "src/agent_ref.cpp"), [r"^pika::execution::detail::agent_ref::(resume|abort)$"])
    table = [(TH, JCB, lambda e: e.get("k") == "call" and callee_of(e) == "pika::threads::detail::set_thread_state"),
             (E, r"execution_agent::do_resume$", lambda e: e.get("k") == "call" and callee_of(e) == "pika::threads::detail::set_thread_state"),
             (E, r"execution_agent::resume$", lambda e: e.get("k") == "call" and callee_short(e) == "do_resume"),
             (AR, r"agent_ref::resume$", lambda e: e.get("k") == "call" and callee_short(e) == "resume"),
             (AR, r"agent_ref::abort$", lambda e: e.get("k") == "call" and callee_short(e) == "abort")]
    for G_, rx, deliver in table:
        fs = [rx] if not isinstance(rx, str) else [f for f in G_.find(rx) if f.parent == -1]
        if not fs:
            raise AnalysisBroken("wake-up entry point %s not found" % rx)
        for f in fs:
            if not any(deliver(e) for _, _, e in f.all_events()):
                rep.bad("C02.R6", f, f.loc, "no-delivery:" + ("join-callback" if f is JCB else f.qname.rsplit("::", 1)[-1]), "%s does not deliver the wake-up at all" % f.qname)
                continue
            byp = bypass_path(f, deliver)
            if byp is None:
                rep.ok("C02.R6", f, "%s delivers the wake-up on every path" % ("thread::join's exit callback (%s)" % f.qname.rsplit("::", 1)[-1] if f is JCB else f.qname.rsplit("::", 1)[-1]))
            else:
                conds = [T(f.blocks[b].cond) for b in byp if f.blocks[b].cond is not None]
                rep.bad("C02.R6", f, f.loc, "wakeup-filtered:" + ("join-callback" if f is JCB else f.qname.rsplit("::", 1)[-1]), "%s can return without delivering the wake-up (path through blocks %s, "
                        "conditions %s): a target that has registered as a waiter but is still 'active' (not yet switched off its worker) is never resumed"
                        % (f.qname, byp, conds[:3]), path=[{"block": b} for b in byp])


    # ---- R5 (continued): pika::this_thread::suspend (used by thread::join and the legacy waiters) switches out
    # exactly once with the requested state on every path that gets past the first interruption point
    TH2 = facts(rep, lib("threading_base", "src/thread_helpers.cpp"), [r"^pika::this_thread::suspend$"])
    sus = [f for f in TH2.find(r"^pika::this_thread::suspend$") if f.parent == -1 and f.file.endswith("thread_helpers.cpp") and any(p_["name"] == "state" for p_ in f.params)]
    if not sus:
        raise AnalysisBroken("pika::this_thread::suspend(state, nextid, ...) not found")
    for f in sus:
        isy = lambda e: e.get("k") == "call" and callee_short(e) == "yield" and "self" in P(e.get("recv"))
        ys = [(b, i, e) for b, i, e in f.all_events() if isy(e)]
        cf = CountFlow(f, lambda ev, pos: 1 if isy(ev) else 0)
        argok = ys and all(strip(e["args"][0]).get("k") == "construct" and strip(e["args"][0]).get("args") and P(strip(e["args"][0])["args"][0]) == "state" for _, _, e in ys)
        # returns that happen after a yield-free path are the two 'if (ec) return' exits of the first interruption point
        ffs = FactFlow(f)
        early_bad = []
        for (b, i), st in cf.ret_states.items():
            if 0 in st:
                fb = ffs.before.get((b, i)) or frozenset()
                if not any(t and a == "ec" for a, t in fb):
                    early_bad.append(loc_of(f.blocks[b].events[i]))
        if argok and not early_bad and not any(x for x in cf.exits if x not in (0, 1)) and 1 in cf.exits:
            rep.ok("C02.R5", f, "this_thread::suspend yields exactly once with the requested state (%d yield sites); a yield-free return happens only with ec set" % len(ys), sites=len(ys))
        else:
            rep.bad("C02.R5", f, f.loc, "suspend-yield", "this_thread::suspend must switch out exactly once with the requested state on every path past the interruption "
                    "point (yield counts at exit: %s, requested state forwarded: %s, yield-free returns without error: %s): the caller believes it has waited" % (sorted(cf.exits), bool(argok), early_bad))


    # ---- R7: staged stealing is reachable between two resets of the idle counter
    from engine.kinds import eval_tree, Unknown
    SL = facts(rep, lib("thread_pools", "src/scheduled_thread_pool.cpp"), [r"^pika::threads::detail::scheduling_loop$"])
    loops_ = [f for f in SL.fns if not f.pattern and f.parent == -1]
    if not loops_:
        raise AnalysisBroken("scheduling_loop instantiations not found")
    for f in loops_:
        dec = [e for _, _, e in f.all_events() if e.get("k") == "decl" and e.get("var") == "enable_stealing_staged" and e.get("init") is not None]
        ffl = FactFlow(f, eh=False)
        resets = [(b, i, e) for b, i, e in f.all_events() if e.get("k") == "write" and P(e["lhs"]) == "idle_loop_count" and T(strip(e.get("rhs"))) == "0"]
        if len(dec) != 1 or not resets:
            raise AnalysisBroken("%s: enable_stealing_staged / idle counter resets not found" % f.full)
        cmps = subexprs(dec[0]["init"], lambda y: isinstance(y, dict) and ((y.get("k") == "bin" and y.get("op") in (">", "<", ">=", "<=")) or
                                                                          (y.get("k") == "call" and y.get("op") in (">", "<", ">=", "<="))) and "idle_loop_count" in T(y))
        bounds = []
        for b, i, e in resets:
            for a, t in (ffl.before.get((b, i)) or frozenset()):
                m = re.match(r"^(.*) < idle_loop_count$", a)
                if t and m:
                    bounds.append(m.group(1))
        if not cmps or not bounds:
            raise AnalysisBroken("%s: threshold comparison / reset bound not recognised" % f.full)
        c = cmps[0]
        lo, hi = (c.get("l"), c.get("r")) if c.get("k") == "bin" else ((c.get("recv") if c.get("recv") is not None else c["args"][0]), c["args"][-1])
        thr = hi if "idle_loop_count" in T(lo) else lo
        bound_txt = sorted(set(bounds))[0]
        try:
            verdict = all(eval_tree(thr, {bound_txt: X}) < X for X in (2, 1000, 200000))
        except Unknown as ex:
            raise AnalysisBroken("%s: cannot evaluate the staged-stealing threshold %s (%s)" % (f.full, T(thr), ex))
        if verdict:
            rep.ok("C02.R7", f, "staged stealing starts at idle count > %s, below the reset bound %s" % (T(thr), bound_txt))
        else:
            rep.bad("C02.R7", f, loc_of(dec[0]), "staged-steal-unreachable", "enable_stealing_staged requires idle_loop_count > %s, but the counter is reset to 0 as soon as it exceeds %s: "
                    "idle workers never convert another queue's staged tasks, so the set_active_state helper (and with it the wake-up) waits for a worker that may be blocked"
                    % (T(thr), bound_txt))


    # ---- R8: publishing the yielded state must tolerate the worker's own set_state_ex
    TD = facts(rep, lib("thread_pools", "src/scheduled_thread_pool.cpp"),
               [r"^pika::threads::detail::thread_data::(restore_state|set_state_ex|set_state_tagged)$", r"^pika::threads::detail::thread_data_stack(ful|less)::call$",
                r"^pika::threads::detail::switch_status::store_state$"])
    callers = [f for f in TD.find(r"thread_data_stack(ful|less)::call$") if f.parent == -1 and any(e.get("k") == "call" and callee_short(e) == "set_state_ex" for _, _, e in f.all_events())]
    st_ = [f for f in TD.find(r"switch_status::store_state$") if f.parent == -1]
    if not st_:
        raise AnalysisBroken("switch_status::store_state not found")
    pub = [e for _, _, e in st_[0].all_events() if e.get("k") == "call" and callee_short(e) == "restore_state"]
    if len(pub) != 1:
        raise AnalysisBroken("switch_status::store_state: expected one restore_state call")
    nargs = len(pub[0].get("args") or [])
    rs = [f for f in TD.find(r"thread_data::restore_state$") if f.parent == -1 and len(f.params) >= 2 and
          all("thread_state" in (q.get("type") or "") and "schedule" not in (q.get("type") or "") for q in f.params[:2])]
    if len(rs) != 1:
        raise AnalysisBroken("thread_data::restore_state(thread_state, thread_state, ...) not found (%d)" % len(rs))
    rs = rs[0]
    cas = [e for _, _, e in rs.all_events() if e.get("k") == "call" and callee_short(e).startswith("compare_exchange") and P(e.get("recv")) == "this->current_state_"]
    if len(cas) != 1:
        raise AnalysisBroken("thread_data::restore_state: expected one compare-exchange on current_state_")
    from engine.kinds import derives_from
    fresh = derives_from(rs, cas[0]["args"][0], lambda t: "this->current_state_.load(" in t)
    if not callers:
        rep.ok("C02.R8", rs, "no function rewrites the state_ex of an active task: the recorded word stays exact")
    elif fresh:
        rep.ok("C02.R8", rs, "the expected word of the publishing compare-exchange takes its state_ex from a fresh load of current_state_ (%d function(s) rewrite state_ex on an active task)" % len(callers))
    else:
        rep.bad("C02.R8", rs, loc_of(cas[0]), "publish-expects-recorded-state-ex",
                "restore_state(new, old) expects the word exactly as the worker recorded it at activation (%s), but %s rewrites the state_ex part of the active task's word afterwards "
                "(set_state_ex): whenever the task was resumed with a restart state other than 'signaled' (interrupt, abort) the compare-exchange fails, the scheduling loop drops the task with "
                "its word stuck at 'active', and the next wake-up aimed at it is never delivered" % (T(cas[0]["args"][0]), ", ".join(sorted(f.qname.rsplit("::", 2)[-2] + "::call" for f in callers))))

    # ---- R10 = C01.R14 / R17 / R18: the retry helper is a staged task
    from .common import import_rules
    import_rules(rep, tier, "C01", ("C01.R14", "C01.R17", "C01.R18"), "C02.R10",
                 "K7/K3 (shared with C01.R14, R17, R18): a wake-up that finds its target still active is handed to a helper task created with create_work - a *staged* task "
                 "description. The wake-up is delivered only if that description is converted and run: the owner converts staged tasks also when its thread map is at the cap "
                 "and nothing is pending (all its tasks are blocked - exactly the situation in which the helper is the only thing that can unblock them), also while its "
                 "pending list is busy, and a popped description is always turned into a queued thread")
