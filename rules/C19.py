# C19 — suspending and resuming pools or workers never loses work (structural part; DESIGN.md §5 C19)
import re
from engine.core import AnalysisBroken, P, T, callee_of, callee_short, cond_atoms, loc_of, strip, forward, block_path, walk
from engine.kinds import LockFlow, FactFlow, precedes_on_all_paths, always_followed_by, reaching_init, reaching_defs
from .common import facts, lib, local_init

EXPLANATION = (
    "Static analysis of the current source (all 8 scheduler instantiations of scheduled_thread_pool and "
    "scheduling_loop). Decided: once a suspend/resume/remove/add operation has refused (throws_if with a caller "
    "supplied error_code) no state-changing operation is reachable before the function returns (R1); a processing "
    "unit's state is moved running->pre_sleep only by compare-exchange under the PU mutex and the caller then waits "
    "while it is pre_sleep, scheduler_base::suspend publishes sleeping before waiting and returns to running only by "
    "compare-exchange, resume keeps notifying until the worker left 'sleeping' (R2); a worker calls suspend() only in "
    "state pre_sleep and only when it is not running, its terminated list is cleaned and its queues are empty (R3); "
    "every scheduler entry point that enqueues chooses the target worker through select_active_pu first (R4); "
    "suspend_internal waits for the pool to drain before moving the PUs, resume_internal resumes every PU (R5). "
    "Not decided: that no task is stranded on a sleeping worker's queue for all interleavings.")
ASSUMPTIONS = ["pika::detail::throws_if returns normally when the caller passed its own error_code",
               "util::yield_while(f) returns only when f() returned false"]
THOROUGH_CONFIGS = [["-UNDEBUG", "-DPIKA_DEBUG"]]
FLOORS = {"C19.R1": 6, "C19.R2": 5, "C19.R3": 4, "C19.R4": 9, "C19.R5": 3, "C19.R6": 3, "C19.R7": 1}

POOL = r"^pika::threads::detail::scheduled_thread_pool::"
STATE_CHANGERS = {"suspend_internal", "suspend_processing_unit_internal", "resume_internal", "resume_processing_unit_direct",
                  "compare_exchange_strong", "compare_exchange_weak", "exchange", "store", "resume", "join",
                  "remove_processing_unit_internal", "add_processing_unit_internal", "swap"}


def is_refusal(ev):
    return ev.get("k") == "call" and callee_of(ev) == "pika::detail::throws_if"


def run(rep, tier):
    rep.rule("C19.R1", "K4: after a refusal (throws_if) no state-changing call is reachable in the same function")
    rep.rule("C19.R2", "K5/K2: PU state running->pre_sleep by CAS under the PU mutex then wait; suspend(): store sleeping -> wait -> CAS sleeping->running; resume loops until not sleeping")
    rep.rule("C19.R3", "K7: scheduling_loop calls scheduler.suspend only in pre_sleep with !running, terminated cleaned, queue length 0; get_next_thread gets 'running'")
    rep.rule("C19.R4", "K6: create_thread/schedule_thread/schedule_thread_last pick the worker via select_active_pu before enqueuing")
    rep.rule("C19.R7", "K7 (evaluated for 1..9 workers): who looks at a sleeping worker's queue. local_priority_queue_scheduler::on_start_thread builds, per worker, the list of "
             "queues it steals from by walking its neighbours left/right up to a radius; taken over all three passes (same core / same NUMA domain / the rest) the walk "
             "visits every other worker exactly once - evaluated with the pass predicate 'true' for every pool size and worker. Work that landed on a suspended worker's "
             "queue (submitted while no worker was running, or after every try_lock lost) is run by the others only through these lists: a worker missing from all of them "
             "strands that work until its owner is resumed (odd pool sizes when the radius is rounded down)")
    rep.rule("C19.R6", "K6 (what blocks the sleep must be runnable by the sleeper): a worker that is being suspended (pre_sleep: 'running' is false) goes to sleep only "
             "when get_queue_length(its number) is 0.  Every queue member that get_queue_length(num_thread) counts is therefore popped by get_next_thread(num_thread, ..) "
             "on a path that does not require 'running' - otherwise a task that arrives in such a queue while the worker is in pre_sleep can neither be run by it nor "
             "let it sleep, and suspend_processing_unit / suspend never return")
    rep.rule("C19.R5", "K2: suspend_internal drains (thread count 0) before moving PUs to pre_sleep and suspending each; resume_internal resumes every PU")

    F = facts(rep, lib("thread_pools", "src/scheduled_thread_pool.cpp"),
              [POOL + r"(suspend|resume|remove_processing_unit|add_processing_unit)", r"^pika::threads::detail::scheduling_loop$",
               r"scheduler::(create_thread|schedule_thread|schedule_thread_last|schedule_work)$"])
    S = facts(rep, lib("threading_base", "src/scheduler_base.cpp"), [r"^pika::threads::detail::scheduler_base::(suspend|resume|select_active_pu)$"])

    def inst(name):
        fs = F.find(POOL + name + "$", pattern=False)
        if not fs:
            raise AnalysisBroken("no instantiation of scheduled_thread_pool::%s" % name)
        return fs

    # ---- R1
    table = ["suspend_direct", "suspend_processing_unit_direct", "suspend_processing_unit_internal",
             "resume_processing_unit_direct", "remove_processing_unit_internal", "add_processing_unit_internal"]
    for name in table:
        fs = inst(name)
        nref = 0
        for fn in fs:
            refs = [(b, i) for b, i, ev in fn.all_events() if is_refusal(ev)]
            nref += len(refs)
            if not refs:
                continue

            def tr(st, ev, pos, refs=set(refs)):
                return True if pos in refs else st
            before, _, _ = forward(fn, False, tr, None, lambda a, b: a or b)
            bad = []
            for b, i, ev in fn.all_events():
                if not before.get((b, i)):
                    continue
                k = ev.get("k")
                nm = callee_short(ev) if k == "call" else None
                if (k == "call" and nm in STATE_CHANGERS) or (k == "call" and nm == "yield_while") or \
                        (k == "ctor" and ev.get("rec") == "std::thread"):
                    bad.append((b, i, ev, nm or "std::thread"))
            if bad:
                for b, i, ev, nm in bad[:1]:
                    rep.bad("C19.R1", fn, loc_of(ev), "after-refusal:" + nm,
                            "%s refuses the operation (throws_if) but then still reaches %s: with a caller-supplied error_code "
                            "the error is reported and the pool is modified anyway" % (fn.qname.rsplit("::", 1)[-1], T(ev)[:120]),
                            path=[{"block": x} for x in block_path(fn, b)])
            else:
                rep.ok("C19.R1", fn, "%d refusal(s); nothing state-changing is reachable afterwards" % len(refs))
        if nref == 0:
            raise AnalysisBroken("scheduled_thread_pool::%s has no refusal any more: update the C19.R1 table" % name)

    # ---- R2
    for fn in inst("suspend_processing_unit_internal"):
        lf = LockFlow(fn)
        cas = [(b, i, ev) for b, i, ev in fn.all_events() if ev.get("k") == "call" and callee_short(ev).startswith("compare_exchange")]
        stores = [(b, i, ev) for b, i, ev in fn.all_events() if ev.get("k") == "call" and callee_short(ev) in ("store", "exchange")
                  and P(ev.get("recv")) == "state"]
        if stores:
            rep.bad("C19.R2", fn, loc_of(stores[0][2]), "plain-store", "PU state modified by %s instead of compare-exchange(running -> pre_sleep): "
                    "a stopping/terminating worker would be put back to pre_sleep" % callee_short(stores[0][2]))
        if len(cas) != 1:
            if stores:
                continue        # already reported: the CAS was replaced by a plain store
            raise AnalysisBroken("%s: expected one compare_exchange" % fn.qname)
        b, i, ev = cas[0]
        exp = local_init(fn, P(ev["args"][0]))
        held = lf.held_before((b, i)) or frozenset()
        ok = exp is not None and T(strip(exp)).endswith("runtime_state::running") and T(ev["args"][1]).endswith("runtime_state::pre_sleep") \
            and len(held) >= 1
        waits = [(bb, ii, e2) for bb, ii, e2 in fn.all_events() if e2.get("k") == "call" and callee_short(e2) == "yield_while"]
        waited = False
        for bb, ii, e2 in waits:
            lam = strip(e2["args"][0])
            body = F.by_id.get(lam.get("id")) if lam.get("k") == "lambda" else None
            if body is None:
                continue
            for _, _, rev in body.all_events():
                if rev.get("k") == "return" and rev.get("e") is not None:
                    a, pos = cond_atoms(rev["e"])
                    if pos and "state.load(" in a and a.endswith("== " + "pika::runtime_state::pre_sleep") or \
                            (pos and "pre_sleep" in a and "state.load(" in a):
                        if precedes_on_all_paths(fn, lambda e: e is ev, (bb, ii)):
                            waited = True
        if ok and waited:
            rep.ok("C19.R2", fn, "running->pre_sleep by CAS under the PU mutex, then waits while pre_sleep")
        else:
            rep.bad("C19.R2", fn, loc_of(ev), "suspend-pu", "PU must be moved running->pre_sleep by compare-exchange with the PU mutex held "
                    "(expected=%s, desired=%s, lock held=%s) and the caller must wait while the state is pre_sleep (%s)"
                    % (T(strip(exp)) if exp else None, T(ev["args"][1]), bool(held), waited))
    sb = S.one(r"scheduler_base::suspend$")[0]
    from engine.kinds import derives_from as _df2
    # the PU's state word may be reached through a reference local ('auto& state = states_[n]; state.store(..)')
    st = [(b, i, ev) for b, i, ev in sb.all_events() if ev.get("k") == "call" and callee_short(ev) == "store" and ev.get("recv") is not None and
          ("states_" in P(ev["recv"]) or _df2(sb, ev["recv"], lambda t: "states_[" in t))]
    wt = [(b, i, ev) for b, i, ev in sb.all_events() if ev.get("k") == "call" and callee_short(ev) in ("wait", "wait_for", "wait_until") and "cond" in P(ev.get("recv")).lower()]
    cs = [(b, i, ev) for b, i, ev in sb.all_events() if ev.get("k") == "call" and callee_short(ev).startswith("compare_exchange")]
    timed = [x for x in wt if callee_short(x[2]) != "wait"]
    if len(st) == 1 and len(cs) == 1 and timed:
        # a timed park ends by itself: the return to 'running' is then only legitimate behind a test that the wait did
        # not time out (the worker must not resume without a resume request)
        ffs = FactFlow(sb)
        fbc = ffs.before.get((cs[0][0], cs[0][1])) or frozenset()
        tested = any(("timeout" in a) for a, t in fbc)
        if not tested:
            rep.bad("C19.R2", sb, loc_of(timed[0][2]), "self-resume-on-timeout", "scheduler_base::suspend parks the worker with %s and then moves the PU from 'sleeping' to 'running' without testing "
                    "whether the wait timed out: a suspended worker wakes up by itself and runs queued tasks although nobody resumed it (task bodies execute while the runtime / the PU is suspended)"
                    % callee_short(timed[0][2]))
            wt = []
    if not wt and timed:
        pass
    elif len(st) != 1 or len(wt) != 1 or len(cs) != 1:
        raise AnalysisBroken("scheduler_base::suspend: expected store, wait, compare_exchange (found %d/%d/%d)" % (len(st), len(wt), len(cs)))
    exp = local_init(sb, P(cs[0][2]["args"][0]))
    if not wt and timed:
        wt = timed
    good = T(st[0][2]["args"][0]).endswith("::sleeping") and precedes_on_all_paths(sb, lambda e: e is st[0][2], (wt[0][0], wt[0][1])) \
        and precedes_on_all_paths(sb, lambda e: e is wt[0][2], (cs[0][0], cs[0][1])) and exp is not None \
        and T(strip(exp)).endswith("::sleeping") and T(cs[0][2]["args"][1]).endswith("::running")
    if good:
        rep.ok("C19.R2", sb, "store(sleeping) -> wait -> CAS(sleeping -> running)")
    else:
        rep.bad("C19.R2", sb, sb.loc, "suspend-order", "scheduler_base::suspend must publish 'sleeping' before waiting and return to 'running' only by compare-exchange from 'sleeping'")
    for fn in inst("resume_processing_unit_direct"):
        good = False
        for b, i, ev in fn.all_events():
            if ev.get("k") == "call" and callee_short(ev) == "yield_while":
                lam = strip(ev["args"][0])
                body = F.by_id.get(lam.get("id")) if lam.get("k") == "lambda" else None
                if body is None:
                    continue
                res = [e for _, _, e in body.all_events() if e.get("k") == "call" and callee_short(e) == "resume"]
                ret = [e for _, _, e in body.all_events() if e.get("k") == "return" and e.get("e") is not None]
                if res and ret and all("sleeping" in cond_atoms(r["e"])[0] and cond_atoms(r["e"])[1] for r in ret):
                    good = True
        if good:
            rep.ok("C19.R2", fn, "resume keeps notifying until the worker has left 'sleeping'")
        else:
            rep.bad("C19.R2", fn, fn.loc, "resume-once", "resume_processing_unit_direct must re-notify until the PU state is no longer 'sleeping' (a single notify can be lost)")

    # ---- R3
    loops = F.find(r"^pika::threads::detail::scheduling_loop$", pattern=False)
    if len(loops) < 1:
        raise AnalysisBroken("no instantiation of scheduling_loop")
    for fn in loops:
        ff = FactFlow(fn, eh=False)
        sus = [(b, i, ev) for b, i, ev in fn.all_events() if ev.get("k") == "call" and callee_short(ev) == "suspend"
               and P(ev.get("recv")) == "scheduler"]
        if len(sus) != 1:
            raise AnalysisBroken("%s: expected one scheduler.suspend(), found %d" % (fn.full, len(sus)))
        b, i, ev = sus[0]
        fb = expand(fn, ff.before.get((b, i)) or frozenset(), (b, i))
        need = {"pre_sleep": any(t and "this_state.load(" in a and "pre_sleep" in a and "==" in a for a, t in fb),
                "not running": ("running", False) in fb,
                "terminated cleaned": any(t and "cleanup_terminated(" in a for a, t in fb),
                "queue empty": any(t and "get_queue_length(" in a and "== 0" in a or (t and a.startswith("0 == ") and "get_queue_length(" in a) for a, t in fb)}
        if all(need.values()):
            rep.ok("C19.R3", fn, "scheduler.suspend() only under pre_sleep && !running && cleanup_terminated && queue length 0")
        else:
            rep.bad("C19.R3", fn, loc_of(ev), "suspend-cond", "worker goes to sleep without %s: queued work can be stranded on a sleeping worker"
                    % [k for k, v in need.items() if not v], path=[{"block": x} for x in block_path(fn, b)])
        # ... and under nothing more that other tasks control: a PU in pre_sleep has to reach 'sleeping' as soon as its
        # queues are drained, even while blocked (suspended) tasks are homed on it - they may be released only after the
        # suspend_processing_unit call that is waiting for 'sleeping' has returned
        extra = sorted(a for a, t in fb if "thread_schedule_state::suspended" in a or ("get_thread_count(" in a and "suspended" in a))
        if extra:
            rep.bad("C19.R3", fn, loc_of(ev), "suspend-needs-no-blocked-tasks", "the worker moves from pre_sleep to sleeping only while no suspended (blocked) task is registered on it (%s): "
                    "suspend_processing_unit waits for 'sleeping' and never returns when a task blocked on that PU is released by the caller afterwards; the PU stays in pre_sleep" % extra[0][:120],
                    path=[{"block": x} for x in block_path(fn, b)])
        else:
            rep.ok("C19.R3", fn, "going to sleep does not depend on the number of blocked tasks homed on the PU")
        run_init = local_init(fn, "running")
        gnt = [(bb, ii, e2) for bb, ii, e2 in fn.all_events() if e2.get("k") == "call" and callee_short(e2) == "get_next_thread"]
        if run_init is None or not gnt:
            raise AnalysisBroken("%s: 'running' or get_next_thread not found" % fn.full)
        a, pos = cond_atoms(run_init)
        okr = pos and "this_state.load(" in a and a.endswith("< pika::runtime_state::pre_sleep")
        oka = all(P(e2["args"][1]) == "running" for _, _, e2 in gnt)
        if okr and oka:
            rep.ok("C19.R3", fn, "get_next_thread is told running = (state < pre_sleep)")
        else:
            rep.bad("C19.R3", fn, loc_of(gnt[0][2]), "running-flag", "get_next_thread must receive running = (this_state < pre_sleep) (init %s, args ok %s)" % (a, oka))

    # ---- R4
    for sched in ("local_priority_queue_scheduler", "local_queue_scheduler", "shared_priority_queue_scheduler"):
        for member in ("create_thread", "schedule_thread", "schedule_thread_last"):
            if sched == "shared_priority_queue_scheduler" and member != "create_thread":
                member = "schedule_work"        # schedule_thread/_last forward to schedule_work
            fs = F.find(r"::%s::%s$" % (sched, member), pattern=False)
            if not fs:
                raise AnalysisBroken("%s::%s not instantiated" % (sched, member))
            for fn in fs:
                enq = [(b, i, ev) for b, i, ev in fn.all_events() if ev.get("k") == "call" and callee_short(ev) in ("create_thread", "schedule_thread")
                       and ev.get("recv") is not None and P(ev["recv"]) not in ("this",) and callee_of(ev) != fn.qname]
                if not enq:
                    raise AnalysisBroken("%s: no per-queue enqueue found" % fn.full)
                def numa_edge(blk, raw):
                    # documented exemption: the NUMA-hint case of shared_priority_queue_scheduler does not handle
                    # suspended PUs ("TODO" in the source); placement by NUMA hint is outside the claimed part
                    return raw.get("label") == "case" and T(raw.get("case")).endswith("thread_schedule_hint_mode::numa")
                missing = [(b, i, ev) for b, i, ev in enq if not precedes_on_all_paths(
                    fn, lambda e: e.get("k") == "call" and callee_short(e) == "select_active_pu", (b, i),
                    edge_pred=numa_edge if sched == "shared_priority_queue_scheduler" else None)]
                # ... and the PU mutex select_active_pu returned with is still held at the enqueue: the suspender does its
                # running -> pre_sleep CAS under the same mutex, and that exclusion is what makes the worker's final
                # "my queues are empty" test valid (the worker itself never takes the mutex)
                sel_calls = [(b_, i_, e_) for b_, i_, e_ in fn.all_events() if e_.get("k") == "call" and callee_short(e_) == "select_active_pu" and e_.get("args")]
                lockvars = set(P(e_["args"][0]) for _, _, e_ in sel_calls)
                dead_at = {}

                def tr_lock(st, e_, pos_):
                    if e_.get("k") == "call" and callee_short(e_) == "select_active_pu":
                        return False
                    if (e_.get("k") == "dtor" and e_.get("var") in lockvars) or \
                            (e_.get("k") == "call" and callee_short(e_) in ("unlock", "release") and e_.get("recv") is not None and P(e_["recv"]) in lockvars):
                        return True
                    return st
                bef_lock, _, _ = forward(fn, False, tr_lock, None, lambda a, b: a or b, eh=False)
                released = [(b_, i_, e_) for b_, i_, e_ in enq if bef_lock.get((b_, i_)) and
                            precedes_on_all_paths(fn, lambda e: e.get("k") == "call" and callee_short(e) == "select_active_pu", (b_, i_),
                                                  edge_pred=numa_edge if sched == "shared_priority_queue_scheduler" else None)]
                if released:
                    b_, i_, e_ = released[0]
                    rep.bad("C19.R4", fn, loc_of(e_), "enqueue-after-pu-unlock", "%s enqueues (%s) after the PU mutex taken by select_active_pu was released: the suspender can move "
                            "the PU to pre_sleep in between, the worker finds its queue empty and sleeps, and the task is pushed behind it" % (member, T(e_)[:80]))
                elif sel_calls:
                    rep.ok("C19.R4", fn, "the PU mutex taken by select_active_pu is held at all %d enqueue sites" % len(enq))
                # ... and the queue it enqueues on is the one of the worker select_active_pu returned: every index in the
                # receiver (queues_[i], high_priority_queues_[n]) is computed from the returned value, not from the hint as
                # it was before the redirect
                selw = [(b_, i_, e_) for b_, i_, e_ in fn.all_events() if e_.get("k") in ("write", "decl") and
                        "select_active_pu(" in T(e_.get("rhs") if e_.get("k") == "write" else e_.get("init"))]
                # (shared_priority_queue_scheduler is not held to this: its workers take work from every queue of the pool in the
                # scheduler's own default mode, so which queue a task sits on does not decide who runs it; schedule_work's
                # hint-none case does keep the indices it computed before the redirect - noted in DESIGN.md, not claimed)
                if selw and sched != "shared_priority_queue_scheduler":
                    selvars = set(P(e_["lhs"]) if e_.get("k") == "write" else e_.get("var") for _, _, e_ in selw)
                    selpos = set((b_, i_) for b_, i_, _ in selw)
                    is_sel = lambda e: e.get("k") == "call" and callee_short(e) == "select_active_pu"
                    idre = re.compile(r"[A-Za-z_]\w*")

                    def stale_src(name, pos, depth=0):
                        """a definition of local `name` reaching pos that was computed from the hint before the redirect"""
                        if depth > 6:
                            return None
                        for d in sorted(reaching_defs(fn, name, pos)):
                            if d in selpos:
                                continue
                            de = fn.blocks[d[0]].events[d[1]]
                            tree = de.get("init") if de.get("k") == "decl" else de.get("rhs")
                            txt = T(tree) if tree is not None else ""
                            if de.get("k") == "write" and de.get("op") != "=":
                                txt += " " + name
                            ids = set(idre.findall(txt))
                            after = precedes_on_all_paths(fn, is_sel, d, eh=False)
                            if not after:
                                if name in selvars or (ids & selvars):
                                    return d
                                for v in ids - {name}:
                                    if reaching_defs(fn, v, d) and stale_src(v, d, depth + 1) is not None:
                                        return d
                            else:
                                for v in ids - selvars - {name}:
                                    if reaching_defs(fn, v, d):
                                        r_ = stale_src(v, d, depth + 1)
                                        if r_ is not None:
                                            return r_
                        return None
                    nidx = 0
                    for b_, i_, e_ in enq:
                        if (b_, i_) in [(x, y) for x, y, _ in missing]:
                            continue
                        for ix in re.findall(r"\[([^\]]+)\]", T(e_["recv"])):
                            for v in set(idre.findall(ix)):
                                if not reaching_defs(fn, v, (b_, i_)):
                                    continue
                                nidx += 1
                                d = stale_src(v, (b_, i_))
                                if d is not None:
                                    rep.bad("C19.R4", fn, loc_of(e_), "enqueue-index-from-hint:" + v, "%s enqueues on %s, and '%s' is computed (%s) from the hinted worker as it was before "
                                            "select_active_pu redirected it: the task is queued on the queue of the hinted worker even when that worker is suspended, and on a "
                                            "scheduler that does not steal it runs only after the worker is resumed" % (member, T(e_["recv"])[:80], v, loc_of(fn.blocks[d[0]].events[d[1]])))
                                else:
                                    rep.ok("C19.R4", fn, "index '%s' of the enqueue at %s is computed from the worker select_active_pu returned" % (v, loc_of(e_)))
                    if sched == "local_priority_queue_scheduler" and nidx < 2:
                        raise AnalysisBroken("%s: indexed enqueue sites not recognised (%d)" % (fn.full, nidx))
                if missing:
                    b, i, ev = missing[0]
                    rep.bad("C19.R4", fn, loc_of(ev), "enqueue-without-select", "%s reaches %s without select_active_pu: work can be queued on a suspended worker"
                            % (member, T(ev)[:100]))
                else:
                    rep.ok("C19.R4", fn, "all %d enqueue sites are preceded by select_active_pu" % len(enq))

    # select_active_pu itself: which PUs it may hand out.  A PU is accepted only with its pu mutex held and only
    # while its state is below pre_sleep (the suspender moves the PU to pre_sleep under the same mutex - that
    # exclusion is what makes the worker's final "my queues are empty" test valid); the threshold is raised only
    # after a full round that found no acceptable PU at all.
    RS = "pika::runtime_state"
    rs = S.enums.get(RS) or F.enums.get(RS)
    if not rs or "pre_sleep" not in rs:
        raise AnalysisBroken("enum pika::runtime_state not found")
    def rs_val(txt):
        txt = txt.strip()
        return rs.get(txt.rsplit("::", 1)[-1]) if txt.startswith(RS + "::") or txt.startswith("runtime_state::") else None
    sel = S.find(r"^pika::threads::detail::scheduler_base::select_active_pu$")
    if not sel:
        raise AnalysisBroken("scheduler_base::select_active_pu not found")
    sel = sel[0]
    lams = [f for f in S.fns if f.parent == sel.id]
    n_thr = 0
    for f in [sel] + lams:
        ff_ = FactFlow(f, eh=False)
        # (a) every threshold the PU state is compared against starts below pre_sleep
        for b, i, ev in f.all_events():
            if ev.get("k") == "decl" and ev.get("var") == "max_allowed_state":
                v = rs_val(T(ev["init"])) if ev.get("init") is not None else None
                n_thr += 1
                if v is not None and v < rs["pre_sleep"]:
                    rep.ok("C19.R4", f, "select_active_pu: initial threshold %s is below pre_sleep" % T(ev["init"]))
                else:
                    rep.bad("C19.R4", f, loc_of(ev), "threshold-init", "select_active_pu starts with threshold %s: a PU that is already in pre_sleep (about to "
                            "sleep, final queue check possibly done) is handed out although running PUs exist - work is stranded on a sleeping worker"
                            % T(ev["init"]))
        for b, blk in f.blocks.items():
            if blk.cond is None:
                continue
            a, pol = cond_atoms(blk.cond)
            m = re.match(r"^(pika::runtime_state::\w+) < this->states_\[.*\]\.runtime_state\(\)$", a)
            if m:
                n_thr += 1
                if rs_val(m.group(1)) is not None and rs_val(m.group(1)) < rs["pre_sleep"]:
                    rep.ok("C19.R4", f, "select_active_pu: fallback accepts states <= %s only" % m.group(1))
                else:
                    rep.bad("C19.R4", f, blk.term.get("loc", f.loc), "threshold-fallback", "select_active_pu accepts a PU in state > %s" % m.group(1))
        # the threshold variable(s): locals compared against the PU state  'X < this->states_[..].runtime_state()'
        thr_vars = set()
        idx_vars = set()
        for F2 in [sel] + lams:
            for blk2 in F2.blocks.values():
                if blk2.cond is None:
                    continue
                for a2, _t in [cond_atoms(blk2.cond)]:
                    m2 = re.match(r"^(\w+) < this->states_\[(\w+)\]\.runtime_state\(\)$", a2)
                    if m2:
                        thr_vars.add(m2.group(1))
                        idx_vars.add(m2.group(2))
                    m3 = re.match(r"^pika::runtime_state::\w+ < this->states_\[(\w+)\]\.runtime_state\(\)$", a2)
                    if m3:
                        idx_vars.add(m3.group(1))
        if not thr_vars:
            thr_vars = {"max_allowed_state"}
        # (b) the threshold is raised only when a full round found no acceptable PU
        for b, i, ev in f.all_events():
            if ev.get("k") == "write" and P(ev["lhs"]) in thr_vars:
                fb = ff_.before.get((b, i)) or frozenset()
                # "no acceptable PU was seen in this round": a local counter that starts at 0, is only ever incremented, and is 0 here
                counters = set(P(e_["lhs"]) for _, _, e_ in f.all_events() if e_.get("k") == "write" and e_.get("op") == "++" and re.match(r"^\w+$", P(e_["lhs"])))
                if any(t and (re.match(r"^0 == (\w+)$", a) and re.match(r"^0 == (\w+)$", a).group(1) in counters or
                              re.match(r"^(\w+) == 0$", a) and re.match(r"^(\w+) == 0$", a).group(1) in counters) for a, t in fb):
                    rep.ok("C19.R4", f, "threshold raised to %s only after a round without any acceptable PU" % T(ev["rhs"]))
                else:
                    rep.bad("C19.R4", f, loc_of(ev), "threshold-raise", "the accepted-state threshold is raised although acceptable PUs may exist")
        # (c) a PU is chosen only with its mutex held and its state within the threshold
        for b, i, ev in f.all_events():
            chosen = (ev.get("k") == "write" and ev.get("op", "=") == "=" and re.match(r"^\w+$", P(ev["lhs"])) and T(strip(ev.get("rhs"))) in idx_vars) or \
                     (ev.get("k") == "return" and ev.get("e") is not None and T(strip(ev.get("e"))) in idx_vars)
            if chosen:
                fb = ff_.before.get((b, i)) or frozenset()
                iv = T(strip(ev.get("rhs") if ev.get("k") == "write" else ev.get("e")))
                owns = any(t and re.match(r"^\w+\.owns_lock\(\)$", a) for a, t in fb)
                within = any((not t) and re.search(r" < this->states_\[%s\]\.runtime_state\(\)$" % re.escape(iv), a) for a, t in fb)
                if owns and within:
                    rep.ok("C19.R4", f, "PU chosen only with its mutex held and its state within the threshold")
                else:
                    rep.bad("C19.R4", f, loc_of(ev), "choose-unchecked", "select_active_pu hands out a PU without holding its mutex (%s) or without "
                            "testing its state (%s)" % (owns, within))
    if n_thr < 2:
        raise AnalysisBroken("select_active_pu: thresholds not found (anchor moved)")

    # ---- R5
    for fn in inst("suspend_internal"):
        cas = [(b, i, ev) for b, i, ev in fn.all_events() if ev.get("k") == "call" and callee_short(ev).startswith("compare_exchange")]
        sp = [(b, i, ev) for b, i, ev in fn.all_events() if ev.get("k") == "call" and callee_short(ev) == "suspend_processing_unit_internal"]
        if not cas or not sp:
            raise AnalysisBroken("%s: CAS loop / suspend_processing_unit_internal not found" % fn.full)

        def drain(e):
            if e.get("k") != "call" or callee_short(e) != "yield_while":
                return False
            lam = strip(e["args"][0])
            body = F.by_id.get(lam.get("id")) if lam.get("k") == "lambda" else None
            return body is not None and any(x.get("k") == "call" and callee_short(x) == "get_thread_count" for _, _, x in body.all_events())
        ok = all(precedes_on_all_paths(fn, drain, (b, i)) for b, i, ev in cas + sp)
        if ok:
            rep.ok("C19.R5", fn, "the pool is drained (thread count 0) before any PU is moved to pre_sleep or suspended")
        else:
            rep.bad("C19.R5", fn, fn.loc, "suspend-order", "suspend_internal must wait for get_thread_count() == 0 before moving PUs to pre_sleep and suspending them")
    for fn in inst("resume_internal"):
        res = [(b, i, ev) for b, i, ev in fn.all_events() if ev.get("k") == "call" and callee_short(ev) == "resume"]
        from engine.kinds import loop_of
        if res and loop_of(fn, res[0][0]) is not None:
            rep.ok("C19.R5", fn, "resume() is called in a loop over all PUs")
        else:
            rep.bad("C19.R5", fn, fn.loc, "resume-all", "resume_internal does not resume every PU")
    for fn in inst("suspend_direct"):
        if [1 for b, i, ev in fn.all_events() if ev.get("k") == "call" and callee_short(ev) == "suspend_internal"]:
            rep.ok("C19.R5", fn, "suspend_direct reaches suspend_internal")
        else:
            rep.bad("C19.R5", fn, fn.loc, "no-suspend", "suspend_direct never suspends")


    sleep_blockers_rule(rep)

    # ---- R7: every other worker is a victim of every worker
    from engine.kinds import interp as _in7, eval_tree as _ev7, Unknown as _Un7
    OS7 = facts(rep, lib("thread_pools", "src/scheduled_thread_pool.cpp"), [r"^pika::threads::detail::local_priority_queue_scheduler::on_start_thread$"])
    ost = [f for f in OS7.fns if f.parent == -1 and not f.pattern and f.qname.endswith("::on_start_thread")]
    if not ost:
        raise AnalysisBroken("local_priority_queue_scheduler::on_start_thread not instantiated")
    fn7 = ost[0]
    rdecl = [e for _, _, e in fn7.all_events() if e.get("k") == "decl" and e.get("var") == "radius"]
    itd = [e for _, _, e in fn7.all_events() if e.get("k") == "decl" and e.get("init") is not None and strip(e["init"]).get("k") == "lambda" and
           any(x.get("k") == "call" and callee_short(x) == "push_back" for _, _, x in (OS7.by_id.get(strip(e["init"]).get("id")).all_events() if OS7.by_id.get(strip(e["init"]).get("id")) else []))]
    if not rdecl or not itd:
        raise AnalysisBroken("on_start_thread: the steal radius / the neighbour walk were not found")
    walk = OS7.by_id[strip(itd[0]["init"])["id"]]
    fpar = [p_["name"] for p_ in walk.params][0] if walk.params else "f"
    bad7, nsamp7 = None, 0

    def model7(node, env_):
        cs = callee_short(node) or ""
        if cs in ("lround", "llround", "round"):
            v = _ev7(node["args"][0], env_)
            import math
            return int(math.floor(abs(v) + 0.5)) * (1 if v >= 0 else -1)
        if cs in ("floor", "ceil", "trunc"):
            import math
            return int(getattr(math, cs)(_ev7(node["args"][0], env_)))
        if T(node).startswith(fpar + "("):
            return True
        raise _Un7(T(node))
    for n in range(1, 10):
        try:
            radius = _ev7(rdecl[0]["init"], {"num_threads": n, "$call": model7})
        except _Un7 as ex:
            raise AnalysisBroken("on_start_thread: the steal radius is not evaluable (%s)" % ex)
        for k in range(n):
            seen = []

            def on_ev(ev, env_, seen=seen):
                if ev.get("k") == "call" and callee_short(ev) == "push_back" and ev.get("args"):
                    seen.append(_ev7(ev["args"][0], env_))
            try:
                res = _in7(walk, {"num_threads": n, "num_thread": k, "radius": radius, "$call": model7}, max_visits=24, unknown_both=False, on_event=on_ev, max_paths=2)
            except _Un7 as ex:
                raise AnalysisBroken("on_start_thread: the neighbour walk is not evaluable (%s)" % ex)
            nsamp7 += 1
            if [r[0] for r in res] not in (["exit"], ["return"]):
                raise AnalysisBroken("on_start_thread: the neighbour walk did not run to its end for %d workers (%s)" % (n, [r[0] for r in res]))
            want = sorted(x for x in range(n) if x != k)
            if sorted(seen) != want and bad7 is None:
                bad7 = "with %d workers (radius %s) worker %d walks over %s - never over %s%s" % (n, radius, k, seen, sorted(set(want) - set(seen)),
                                                                                               ", twice over %s" % sorted(set(x for x in seen if seen.count(x) > 1)) if len(seen) != len(set(seen)) else "")
    if bad7:
        rep.bad("C19.R7", fn7, loc_of(rdecl[0]), "steal-coverage", "on_start_thread: %s: no pass can put the missing workers on its victim list, so work sitting in their queues while "
                "they are suspended is never looked at by this worker (with 3 workers: by nobody)" % bad7)
    else:
        rep.ok("C19.R7", fn7, "the neighbour walk visits every other worker exactly once for 1..9 workers (%d evaluations)" % nsamp7, sites=nsamp7)


def conj_atoms(e):
    e = strip(e)
    if isinstance(e, dict) and e.get("k") == "bin" and e["op"] == "&&":
        return conj_atoms(e["l"]) + conj_atoms(e["r"])
    a, pos = cond_atoms(e)
    return [(a, pos)]


def expand(fn, fb, pos, depth=3):
    """Replace facts about local bools by the conjuncts of the unique definition reaching pos."""
    out = set(fb)
    for _ in range(depth):
        add = set()
        for a, t in out:
            if t and re.match(r"^\w+$", a):
                ini = reaching_init(fn, a, pos)
                if ini is not None:
                    for ca, cp in conj_atoms(ini):
                        add.add((ca, cp))
        if add <= out:
            break
        out |= add
    return out


def sleep_blockers_rule(rep):
    from engine.kinds import derives_from
    SP_ = facts(rep, lib("thread_pools", "src/scheduled_thread_pool.cpp"),
                [r"::(local_priority_queue_scheduler|local_queue_scheduler|static_queue_scheduler|static_priority_queue_scheduler)::(get_next_thread|get_queue_length|wait_or_add_new)$"])
    byclass = {}
    for f in SP_.fns:
        if not f.pattern and f.parent == -1:
            byclass.setdefault(f.full.rsplit("::", 1)[0], {}).setdefault(f.qname.rsplit("::", 1)[-1], []).append(f)
    n = 0
    for cls, fs_ in sorted(byclass.items()):
        gl = [f for f in fs_.get("get_queue_length", []) if any("size_t" in str(p_.get("type", "")) or "long" in str(p_.get("type", "")) for p_ in f.params)]
        gn = fs_.get("get_next_thread", [])
        if not gl or not gn:
            continue
        g = gn[0]
        counted = set()
        for f in gl:
            for _, _, e in f.all_events():
                if e.get("k") == "call" and callee_short(e) in ("get_queue_length", "get_pending_queue_length", "get_staged_queue_length") and e.get("recv") is not None and P(e["recv"]) != "this":
                    m = re.match(r"^this->(\w+)", P(e["recv"]))
                    if m:
                        counted.add(m.group(1))
        if not counted:
            continue
        runp = [q["name"] for q in g.params if (q.get("type") or "").strip() == "bool"]
        if not runp:
            raise AnalysisBroken("%s::get_next_thread: the 'running' parameter was not identified" % cls)
        running = runp[0]
        ffg = FactFlow(g, eh=False)
        is_pop = lambda e: e.get("k") == "call" and callee_short(e) == "get_next_thread" and e.get("recv") is not None and P(e["recv"]) != "this"
        for m in sorted(counted):
            mine = [(b, i, e) for b, i, e in g.all_events() if is_pop(e) and derives_from(g, e["recv"], lambda t, m=m: ("this->" + m) in t)]
            free = [(b, i, e) for b, i, e in mine if (running, True) not in (ffg.before.get((b, i)) or frozenset())]
            n += 1
            if free:
                rep.ok("C19.R6", g, "%s (counted by get_queue_length) is popped without requiring '%s' (%d of %d pop sites)" % (m, running, len(free), len(mine)))
            else:
                rep.bad("C19.R6", g, loc_of(mine[0][2]) if mine else g.loc, "sleep-blocked-by:" + m, "%s: get_queue_length(num_thread) counts %s, but get_next_thread pops it %s: a task "
                        "that arrives there while the worker is in pre_sleep (running == false) can neither be run by that worker nor let it reach queue length 0 - the worker spins in "
                        "pre_sleep for ever and the suspend call that waits for it never returns" % (cls.rsplit("::", 1)[-1], m, "only after the test of '%s'" % running if mine else "nowhere"))
        # the same for the conversion of staged tasks: get_queue_length counts them too, and only the owner converts its own queue
        for w in fs_.get("wait_or_add_new", [])[:1]:
            runw = [q["name"] for q in w.params if (q.get("type") or "").strip() == "bool"]
            if not runw:
                continue
            ffw = FactFlow(w, eh=False)
            is_conv = lambda e: e.get("k") == "call" and callee_short(e) == "wait_or_add_new" and e.get("recv") is not None and P(e["recv"]) != "this"
            for m in sorted(counted):
                mine = [(b, i, e) for b, i, e in w.all_events() if is_conv(e) and derives_from(w, e["recv"], lambda t, m=m: ("this->" + m) in t)]
                if not mine:
                    continue
                free = [(b, i, e) for b, i, e in mine if (runw[0], True) not in (ffw.before.get((b, i)) or frozenset())]
                n += 1
                if free:
                    rep.ok("C19.R6", w, "staged tasks of %s (counted by get_queue_length) are converted without requiring '%s'" % (m, runw[0]))
                else:
                    rep.bad("C19.R6", w, loc_of(mine[0][2]), "sleep-blocked-by-staged:" + m, "%s: get_queue_length(num_thread) counts the staged tasks of %s, but wait_or_add_new converts them only "
                            "after the test of '%s': tasks staged on a worker that is then switched to pre_sleep (it was busy when they were submitted) are neither converted - only the "
                            "owner converts its own queue - nor let the worker reach queue length 0; the suspend call never returns and the tasks never run" % (cls.rsplit("::", 1)[-1], m, runw[0]))
    if n < 3:
        raise AnalysisBroken("C19.R6 examined only %d (scheduler, queue member) pairs" % n)
