# C04 — async_rw_mutex: exclusive writers, grouped readers, request-order grants (structural part; DESIGN.md §5 C04)
import re
from engine.core import AnalysisBroken, P, T, callee_of, callee_short, cond_atoms, loc_of, strip, is_moved, block_path
from engine.kinds import FactFlow, CountFlow, precedes_on_all_paths, always_followed_by, loop_of
from engine.completions import Completions, NS
from .common import facts, lib, driver, witness

EXPLANATION = (
    "Static analysis of the current source (both specialisations of async_rw_mutex, instantiated for void and int). "
    "Decided: readwrite() always allocates a new shared state and records 'readwrite', read() allocates exactly when the "
    "previous access was readwrite and then records 'read'; every allocating path links the new state behind the "
    "previous one or, when there is none, grants it at once - exactly one of the two; the value specialisation hands "
    "the value to every new state (R1); add_op_state re-tests the 'already done' sentinel before every compare-exchange "
    "and reports false only on the sentinel edge, true only after CAS success (R2); done() publishes the sentinel with "
    "one exchange and reads a node's next pointer before running its continuation (R3); the state destructor drops "
    "its reference to the next state before granting it, and only if there is one (R4); an operation runs its "
    "continuation itself only when enqueueing failed because the state was already granted, the continuation moves the "
    "state into the access wrapper and completes exactly once, an unused sender still takes its turn (R5); write access "
    "wrappers and senders are move-only (R6); the waiter list head is modified only by acq_rel compare-exchange / "
    "exchange (R7). Not decided: request-order grants as a property of histories; release order through shared_ptr "
    "reference counting under all copy/destroy interleavings.")
ASSUMPTIONS = ["std::shared_ptr reference counting is correct", "the mutex object itself is used from one thread at a time when requesting access (documented)"]
THOROUGH_CONFIGS = [["-UNDEBUG", "-DPIKA_DEBUG"]]
FLOORS = {"C04.R1": 4, "C04.R2": 3, "C04.R3": 2, "C04.R4": 1, "C04.R5": 6, "C04.R6": 8, "C04.R7": 2, "C04.R8": 1, "C04.R9": 3}

RW = "pika::execution::experimental::async_rw_mutex_access_type::readwrite"
RD = "pika::execution::experimental::async_rw_mutex_access_type::read"
BASE = "pika::execution::experimental::detail::async_rw_mutex_shared_state_base"


def run(rep, tier):
    rep.rule("C04.R1", "K3/K7: read()/readwrite(): allocate-new-state conditions, prev_access bookkeeping, link-or-grant exactly once, value handed on")
    rep.rule("C04.R2", "K4: add_op_state re-tests the sentinel before every CAS; false only on the sentinel edge, true only after CAS success")
    rep.rule("C04.R3", "K2: done(): one exchange(this); next read before continuation()")
    rep.rule("C04.R4", "K2: ~shared_state_base: next_state.reset() before p->done(), only if next_state")
    rep.rule("C04.R5", "K6: start(): continuation() only if !add_op_state(this); continuation moves the state into the wrapper, completes once; sender dtor starts detached")
    rep.rule("C04.R8", "K9/K6 (ownership): every access group's shared state co-owns the wrapped value - the handle it stores is a shared-ownership smart pointer, assigned by that "
             "type's assignment operator, not a plain pointer/reference into the mutex (the value must outlive the last access wrapper even if the mutex is destroyed first)")
    rep.rule("C04.R9", "K8 (special members agree with the destructor): ~sender gives an access that was requested but never started its turn (start_detached(std::move(*this))), "
             "otherwise everything queued behind it waits for ever and the predecessor's shared state calls done() on a successor nobody owns. An assignment over such a sender "
             "ends the old access in the same way: every user-provided operator= stores into 'state' only after start_detached or with 'state' known empty - a defaulted "
             "operator= just drops the shared_ptr (the dropped state is destroyed inside its predecessor's destructor, which then writes into freed memory)")
    rep.rule("C04.R6", "K9: write wrappers/senders move-only, read ones copyable, mutex not copyable")
    rep.rule("C04.R7", "K5: op_state_head only via compare_exchange_weak/exchange with >= acq_rel")

    D = facts(rep, driver("c04_rwmutex.cpp"), [r"^pika::execution::experimental::async_rw_mutex::", r"^pika::execution::experimental::detail::async_rw_mutex_"])

    def inst(q):
        fs = [f for f in D.find("^" + q + "$") if not f.pattern and f.parent == -1]
        if not fs:
            raise AnalysisBroken("%s not instantiated" % q)
        return fs
    M = "pika::execution::experimental::async_rw_mutex"
    # ---- R1
    # the "kind of the last requested access" member: the only member of the mutex that is assigned access-type constants
    accs = set()
    for member in ("read", "readwrite"):
        for fn in inst(M + "::" + member):
            for _, _, ev in fn.all_events():
                if ev.get("k") == "write" and T(strip(ev["rhs"])) in (RW, RD) and P(ev["lhs"]).startswith("this->"):
                    accs.add(P(ev["lhs"]))
    if len(accs) > 1:
        raise AnalysisBroken("async_rw_mutex: more than one member holds the last access type: %s" % sorted(accs))
    ACC = accs.pop() if accs else "this->prev_access"
    for member in ("read", "readwrite"):
        fs = inst(M + "::" + member)
        if len(fs) < 2:
            raise AnalysisBroken("expected both specialisations of async_rw_mutex::%s" % member)
        for fn in fs:
            ff = FactFlow(fn)
            is_value = "<int" in fn.full
            alloc = [(b, i, ev) for b, i, ev in fn.all_events() if ev.get("k") == "call" and callee_short(ev) == "allocate_shared"]
            link = lambda e: e.get("k") == "call" and callee_short(e) == "set_next_state"
            grant = lambda e: e.get("k") == "call" and callee_short(e) == "done" and P(e.get("recv")).endswith("state")
            setv = lambda e: e.get("k") == "call" and callee_short(e) == "set_value" and P(e.get("recv")).endswith("state")
            probs = []
            if len(alloc) != 1:
                raise AnalysisBroken("%s: expected one allocate_shared" % fn.full)
            ab, ai, aev = alloc[0]
            fb = ff.before.get((ab, ai)) or frozenset()
            cond_rw = any(t and a in ("%s == %s" % (RW, ACC), "%s == %s" % (ACC, RW)) for a, t in fb)
            if member == "readwrite" and any(ACC in a for a, t in fb):
                probs.append("readwrite() allocates a new state only conditionally")
            if member == "read" and not cond_rw:
                probs.append("read() allocates a new state although the previous access was not readwrite (readers would not be grouped) or never")
            # returns without allocation only in read() when prev was not readwrite
            cf = CountFlow(fn, lambda ev, pos: 1 if ev is aev else 0)
            want = {1} if member == "readwrite" else {0, 1}
            if cf.exits != frozenset(want):
                probs.append("allocation count per call is %s (expected %s)" % (sorted(cf.exits), sorted(want)))
            # prev_access bookkeeping
            wr = [(b, i, ev) for b, i, ev in fn.all_events() if ev.get("k") == "write" and P(ev["lhs"]) == ACC]
            val = RW if member == "readwrite" else RD
            if not wr or any(T(strip(ev["rhs"])) != val for b, i, ev in wr) or always_followed_by(fn, (ab, ai), lambda e: e.get("k") == "write" and P(e["lhs"]) == ACC):
                probs.append("prev_access is not set to '%s' on every allocating path" % val.rsplit("::", 1)[-1])
            # link-or-grant exactly once after allocation, chosen by prev_state
            cl = CountFlow(fn, lambda ev, pos: 1 if (link(ev) or grant(ev)) else 0)
            after = {c for c in cl.exits}
            if member == "readwrite" and cl.exits != frozenset([1]):
                probs.append("the new state is linked/granted %s times" % sorted(cl.exits))
            if member == "read" and not cl.exits <= {0, 1}:
                probs.append("the new state is linked/granted %s times" % sorted(cl.exits))
            if always_followed_by(fn, (ab, ai), lambda e: link(e) or grant(e)):
                probs.append("an allocating path neither links the new state behind the previous one nor grants it: its accesses are never granted")
            for b, i, ev in fn.all_events():
                fbe = ff.before.get((b, i)) or frozenset()
                if link(ev) and ("prev_state", True) not in fbe:
                    probs.append("set_next_state is called without a previous state")
                if link(ev) and P(ev.get("recv")) != "prev_state":
                    probs.append("the new state is not linked behind the previous state")
                if grant(ev) and ("prev_state", False) not in fbe:
                    probs.append("the new state is granted immediately although a previous state exists (accesses overlap)")
            ps = [ev for _, _, ev in fn.all_events() if ev.get("k") == "decl" and ev.get("var") == "prev_state"]
            if not ps or P(ps[0].get("init")) != "this->state" or not precedes_on_all_paths(fn, lambda e: e is ps[0], (ab, ai)):
                probs.append("the previous state is not taken from this->state before it is replaced")
            if is_value:
                if always_followed_by(fn, (ab, ai), setv):
                    probs.append("the value is not handed to the newly allocated state (the wrapped value would not outlive the mutex)")
            if probs:
                rep.bad("C04.R1", fn, loc_of(aev), member, "; ".join(probs))
            else:
                rep.ok("C04.R1", fn, "%s(): allocation rule, prev_access = %s, link-or-grant exactly once%s" % (member, val.rsplit("::", 1)[-1], ", value handed on" if is_value else ""))

    # ---- R8: the value handle kept by a shared state is an owning one
    svs = [f for f in D.find(r"^pika::execution::experimental::detail::async_rw_mutex_shared_state::set_value$") if not f.pattern and f.parent == -1]
    if not svs:
        raise AnalysisBroken("async_rw_mutex_shared_state<T>::set_value not instantiated")
    OWNING = ("std::shared_ptr::", "std::__shared_ptr::", "pika::memory::intrusive_ptr::", "pika::intrusive_ptr::")
    for fn in svs:
        stores = [e for _, _, e in fn.all_events() if (e.get("k") == "write" and P(e["lhs"]).startswith("this->")) or
                  (e.get("k") == "call" and e.get("op") == "=" and e.get("recv") is not None and P(e["recv"]).startswith("this->"))]
        if len(stores) != 1:
            raise AnalysisBroken("%s: expected one store into the state" % fn.full)
        e = stores[0]
        if e.get("k") == "call" and callee_of(e).startswith(OWNING):
            rep.ok("C04.R8", fn, "the state takes the value over with %s (shared ownership)" % callee_of(e))
        else:
            rep.bad("C04.R8", fn, loc_of(e), "value-not-owned", "the access group's state stores the wrapped value as %s: it does not own it, so wrappers that outlive the async_rw_mutex "
                    "(fire-and-forget accesses, a mutex destroyed or reassigned while accesses are pending) read and write a destroyed object"
                    % ("a plain pointer/reference (%s)" % T(e)[:60] if e.get("k") == "write" else callee_of(e)))

    # ---- R2
    ao = [f for f in D.find("^" + BASE + "::add_op_state$") if f.parent == -1][0]
    ff = FactFlow(ao)
    cas = [(b, i, ev) for b, i, ev in ao.all_events() if ev.get("k") == "call" and callee_short(ev).startswith("compare_exchange")]
    if len(cas) != 1:
        raise AnalysisBroken("add_op_state: expected one compare_exchange")
    HEAD = P(cas[0][2].get("recv"))             # the list head: the atomic member add_op_state pushes onto (its name is free)
    if not HEAD.startswith("this->"):
        raise AnalysisBroken("add_op_state: the compare-exchange is not on a member (%s)" % HEAD)
    b, i, ev = cas[0]
    fb = ff.before.get((b, i)) or frozenset()
    OPN = ao.params[0]["name"] + "->next"        # the new waiter's link field (the parameter's name is free)
    # 'this' or a local constant initialised from it (void* const closed = static_cast<void*>(this))
    this_names = ["this"] + [e["var"] for _, _, e in ao.all_events() if e.get("k") == "decl" and e.get("init") is not None and P(e["init"]) == "this" and
                             not any(w.get("k") == "write" and P(w["lhs"]) == e["var"] for _, _, w in ao.all_events())]
    tested = any((not t) and OPN in a and "==" in a and any(re.search(r"(^|[^\w>.])%s($|[^\w])" % re.escape(n), a) for n in this_names) for a, t in fb)
    if tested:
        rep.ok("C04.R2", ao, "every CAS attempt is preceded by the sentinel test op_state->next == this since next was last (re)loaded")
    else:
        rep.bad("C04.R2", ao, loc_of(ev), "cas-without-sentinel-test", "an operation can be pushed onto a list that was already handed over (sentinel not re-tested after a failed CAS): it is never granted")
    for bb, ii, e in ao.all_events():
        if e.get("k") == "return" and (bb, ii) in ff.before:
            v = strip(e["e"])
            fbr = ff.before[(bb, ii)]
            if v.get("v") is True and not any(t and "compare_exchange" in a for a, t in fbr):
                rep.bad("C04.R2", ao, loc_of(e), "true-without-cas", "add_op_state returns true without a successful compare-exchange")
            elif v.get("v") is False and not any(t and OPN in a and "==" in a for a, t in fbr):
                rep.bad("C04.R2", ao, loc_of(e), "false-without-sentinel", "add_op_state returns false although the state was not found granted")
            else:
                rep.ok("C04.R2", ao, "returns %s on the right edge" % T(v))
    # ---- R3
    dn = [f for f in D.find("^" + BASE + "::done$") if f.parent == -1][0]
    xs = [(b, i, ev) for b, i, ev in dn.all_events() if ev.get("k") == "call" and callee_short(ev) == "exchange" and P(ev.get("recv")) == HEAD]
    cont = [(b, i, ev) for b, i, ev in dn.all_events() if ev.get("k") == "call" and callee_short(ev) == "continuation"]
    if len(xs) == 1 and "this" in T(xs[0][2]["args"][0]) and (xs[0][2].get("mo") or [""])[0] in ("memory_order_acq_rel", "memory_order_seq_cst"):
        rep.ok("C04.R3", dn, "done(): one op_state_head.exchange(this, acq_rel)")
    else:
        rep.bad("C04.R3", dn, dn.loc, "exchange", "done() must take the waiter list with exactly one exchange(this, >=acq_rel)")
    if len(cont) == 1:
        cb, ci, cev = cont[0]
        CUR = P(cev.get("recv"))          # the node whose continuation runs (name is free)
        CURN = CUR + "->next"
        nxt = lambda e: e.get("k") == "decl" and e.get("init") is not None and P(e["init"]) == CURN
        rd = precedes_on_all_paths(dn, nxt, (cb, ci), reset_pred=lambda e: (e.get("k") == "write" and P(e["lhs"]) == CUR))
        late = [e for e in dn.blocks[cb].events[ci + 1:] if e.get("k") in ("read", "decl") and CURN in T(e.get("e") or e.get("init"))]
        if rd and not late and loop_of(dn, cb) is not None:
            rep.ok("C04.R3", dn, "current->next is read before current->continuation() (which may destroy the node), in a loop over the whole list")
        else:
            rep.bad("C04.R3", dn, loc_of(cev), "next-after-continuation", "done() reads current->next after running the continuation (use after free) or does not walk the whole list")
    else:
        rep.bad("C04.R3", dn, dn.loc, "continuation", "done() must run each waiter's continuation exactly once per node")
    # ---- R4
    dt = [f for f in D.find("^" + BASE + "::~async_rw_mutex_shared_state_base$")]
    if not dt:
        raise AnalysisBroken("shared state destructor not found")
    dt = dt[0]
    ffd = FactFlow(dt)
    rs = [(b, i, ev) for b, i, ev in dt.all_events() if ev.get("k") == "call" and callee_short(ev) == "reset" and P(ev.get("recv")) == "this->next_state"]
    dd = [(b, i, ev) for b, i, ev in dt.all_events() if ev.get("k") == "call" and callee_short(ev) == "done"]
    if len(rs) == 1 and len(dd) == 1 and precedes_on_all_paths(dt, lambda e: e is rs[0][2], (dd[0][0], dd[0][1])) and \
            ("this->next_state", True) in (ffd.before.get((dd[0][0], dd[0][1])) or ffd.before.get((rs[0][0], rs[0][1])) or frozenset()) | (ffd.before.get((rs[0][0], rs[0][1])) or frozenset()):
        rep.ok("C04.R4", dt, "destructor: if (next_state) { p = next_state.get(); next_state.reset(); p->done(); }")
    else:
        rep.bad("C04.R4", dt, dt.loc, "dtor-order", "the state destructor must drop its reference to the next state before granting it, and grant only an existing next state")
    # ---- R5
    starts = [f for f in D.fns if not f.pattern and f.parent == -1 and re.search(r"async_rw_mutex::sender::operation_state::start$", f.qname)]
    conts = [f for f in D.fns if not f.pattern and f.parent == -1 and re.search(r"async_rw_mutex::sender::operation_state::continuation$", f.qname)]
    if len(starts) < 4 or len(conts) < 4:
        raise AnalysisBroken("operation_state::start/continuation: expected 4 instantiations each, found %d/%d" % (len(starts), len(conts)))
    for fn in starts:
        ff = FactFlow(fn)
        c = [(b, i, ev) for b, i, ev in fn.all_events() if ev.get("k") == "call" and callee_short(ev) == "continuation"]
        if len(c) == 1 and any((not t) and "add_op_state(this)" in a for a, t in (ff.before.get((c[0][0], c[0][1])) or frozenset())):
            rep.ok("C04.R5", fn, "start(): continuation() only when add_op_state(this) reported 'already granted'")
        else:
            rep.bad("C04.R5", fn, fn.loc, "start-continuation", "start() must run the continuation itself exactly when add_op_state(this) returned false (otherwise the access runs before it is granted, or twice)")
    # the release chain is the reference count of the shared state: the access wrapper is meant to be its last owner
    # (its destruction passes the grant on).  No other owning copy of this->state may be alive while the continuation
    # runs - a local shared_ptr copy in start() keeps the group alive until start() returns, so a continuation that
    # waits for a later access of the same mutex is never granted
    for fn in starts + conts:
        extra = []
        for b, i, ev in fn.all_events():
            if ev.get("k") in ("ctor", "decl") and "shared_ptr" in (str(ev.get("rec", "")) + str(ev.get("type", ""))):
                src = ev.get("init") if ev.get("k") == "decl" else (ev.get("args") or [None])[0]
                if src is not None and P(src) == "this->state" and not is_moved(src) and (ev.get("var") or ev.get("k") == "decl"):
                    extra.append(ev)
        if extra:
            rep.bad("C04.R5", fn, loc_of(extra[0]), "extra-owner:" + fn.qname.rsplit("::", 1)[-1], "%s keeps an additional owning copy of the shared state (%s) while the "
                    "continuation runs: the previous access group is not released when the wrapper dies but only when this function returns"
                    % (fn.qname.rsplit("::", 1)[-1], extra[0].get("var")))
        else:
            rep.ok("C04.R5", fn, "%s holds no additional owning copy of the shared state" % fn.qname.rsplit("::", 1)[-1])
    C = Completions(D)
    for fn in conts:
        s = C.summary(fn)
        sv = [ev for _, _, ev in fn.all_events() if ev.get("k") == "call" and callee_of(ev) == NS + "set_value"]
        def moves_state(a):
            a0 = strip(a)
            if isinstance(a0, dict) and a0.get("k") == "construct":
                return any(P(x) == "this->state" and is_moved(x) for x in a0.get("args", []))
            return P(a) == "this->state" and is_moved(a)
        moved_state = sv and any(moves_state(a) for a in sv[0]["args"][1:])
        hand = [e for _, _, e in fn.all_events() if e.get("k") == "call" and callee_of(e) == NS + "set_error"]
        hb = [h["block"] for t in fn.tries.values() for h in t["handlers"]]
        reset_first = True
        for h in hb:
            evs = fn.blocks[h].events
            names = [(callee_short(e), P(e.get("recv") or {})) for e in evs if e.get("k") == "call"]
            if ("reset", "this->state") not in names or names.index(("reset", "this->state")) > [n for n, _ in names].index("set_error") if "set_error" in [n for n, _ in names] else False:
                reset_first = False
        if s.normal == frozenset([1]) and moved_state and reset_first:
            rep.ok("C04.R5", fn, "continuation(): state moved into the access wrapper, exactly one completion, handler releases the state before set_error")
        else:
            rep.bad("C04.R5", fn, fn.loc, "continuation", "continuation must complete exactly once (%s), move its state reference into the access wrapper (%s) and release it before "
                    "reporting an error (%s): the grant would otherwise never be passed on" % (sorted(s.normal), bool(moved_state), reset_first))
    sd = [f for f in D.fns if not f.pattern and f.parent == -1 and re.search(r"async_rw_mutex::sender::~sender$", f.qname)]
    if len(sd) < 4:
        raise AnalysisBroken("sender destructors: expected 4 instantiations")
    for fn in sd:
        ff = FactFlow(fn)
        c = [(b, i, ev) for b, i, ev in fn.all_events() if ev.get("k") == "call" and callee_short(ev) in ("start_detached", "operator()") and "start_detached" in T(ev)]
        if c and any(t and a == "this->state" for a, t in (ff.before.get((c[0][0], c[0][1])) or frozenset())):
            rep.ok("C04.R5", fn, "an unused sender is started detached so that its turn is passed on")
        else:
            rep.bad("C04.R5", fn, fn.loc, "sender-dtor", "a sender that is destroyed without being started must still take and release its turn (start_detached)")
    # ---- R6 / R7
    # ---- R9: assignment over an unstarted sender
    asg = {}
    for f in D.find(r"^pika::execution::experimental::async_rw_mutex::sender::operator=$"):
        if f.parent == -1 and (not f.pattern or f.loc not in asg):
            if not f.pattern or f.loc not in asg:
                asg[f.loc] = f if (f.loc not in asg or asg[f.loc].pattern) else asg[f.loc]
    dts = set(f.loc.rsplit(":", 1)[0] for f in D.find(r"^pika::execution::experimental::async_rw_mutex::sender::~sender$"))
    if not dts:
        raise AnalysisBroken("async_rw_mutex::sender::~sender not found")
    if len(asg) < 2:
        rep.bad("C04.R9", "pika::execution::experimental::async_rw_mutex::sender::operator=", sorted(dts)[0], "assignment-defaulted",
                "the sender's assignment operators have no user-provided body (%d found): assigning over a sender that was never started drops its shared state without giving the "
                "access its turn - the state is then owned by its predecessor only and is destroyed inside the predecessor's destructor, which goes on to call done() on it "
                "(write into freed memory); accesses queued behind it are granted out of turn" % len(asg))
    for loc_, f in sorted(asg.items()):
        st9 = [(b, i, e) for b, i, e in f.all_events() if (e.get("k") == "call" and e.get("op") == "=" and e.get("recv") is not None and P(e["recv"]) == "this->state") or
               (e.get("k") == "write" and P(e["lhs"]) == "this->state")]
        if f.raw.get("defaulted") or not st9:
            rep.bad("C04.R9", f, f.loc, "assignment-defaulted", "sender::operator= is defaulted (member-wise): assigning over a sender that was never started drops its shared state "
                    "without giving the access its turn - the state is then owned by its predecessor only and is destroyed inside the predecessor's destructor, which goes on "
                    "to call done() on it (write into freed memory); the destructor's start_detached has no counterpart here")
            continue

        def empty_edge(blk, raw):
            if blk.cond is None:
                return False
            a, pos = cond_atoms(blk.cond)
            return a == "this->state" and raw.get("label") == ("false" if pos else "true")
        for b, i, e in st9:
            if precedes_on_all_paths(f, lambda x: x.get("k") == "call" and callee_short(x) == "start_detached", (b, i), edge_pred=empty_edge, eh=False):
                rep.ok("C04.R9", f, "operator= at %s starts the overwritten access detached (or finds none) before taking over the new state" % f.loc.rsplit("/", 1)[-1])
            else:
                rep.bad("C04.R9", f, loc_of(e), "assignment-drops-access", "sender::operator= overwrites 'state' on a path where the old access was neither started detached nor "
                        "known to be empty: an unstarted access is dropped without taking its turn")

    n, failed = witness(rep, "C04.R6", driver("../witness/C04.cpp"))
    for _ in range(n - failed):
        rep.ok("C04.R6", "witness:C04.cpp", "static_assert holds")
    nmods = 0
    for f in D.find("^" + BASE + "::"):
        if f.kind in ("ctor",):
            continue
        for b, i, ev in f.all_events():
            if ev.get("k") == "call" and ev.get("recv") is not None and P(ev["recv"]) == HEAD and callee_short(ev) != "load":
                nmods += 1
                mo = (ev.get("mo") or ["memory_order_seq_cst"])[0]
                if callee_short(ev) in ("compare_exchange_weak", "compare_exchange_strong", "exchange") and mo in ("memory_order_acq_rel", "memory_order_seq_cst"):
                    rep.ok("C04.R7", f, "op_state_head.%s(%s)" % (callee_short(ev), mo))
                else:
                    rep.bad("C04.R7", f, loc_of(ev), "head-" + callee_short(ev), "op_state_head modified by %s with %s" % (callee_short(ev), mo))
    if nmods < 2:
        raise AnalysisBroken("C04.R7 found %d modifications of op_state_head" % nmods)
