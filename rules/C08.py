# C08 — semaphores conserve permits and release blocked acquirers (structural part; DESIGN.md §5 C08)
import re
from engine.core import AnalysisBroken, P, T, callee_of, callee_short, cond_atoms, loc_of, strip, forward, block_path, is_moved, walk
from engine.kinds import (LockFlow, FactFlow, check_guarded, eval_tree, Unknown, return_set, first_outcome, loop_of,
                          precedes_on_all_paths)
from .common import facts, lib, driver

EXPLANATION = (
    "Static analysis of the current source. Decided: the permit counter value_ (and the sliding semaphore's "
    "lower_limit_/max_difference_) is only touched while the caller's lock is held (R1); permits are consumed only "
    "after the test 'enough permits' succeeded with no lock release in between (R2); the timed wait reports failure "
    "exactly for the values of detail::condition_variable::wait_until's computed return set that mean 'timed out', "
    "and re-tests after a wake-up (R3); try_*/wait_until return true exactly on paths that consumed a permit (R4); "
    "signal adds the permits before waking, re-acquires the consumed lock before touching the counter again and keeps "
    "waking while waiters and permits remain (R5); the public wrappers take mtx_ and forward their arguments, and "
    "sync_wait stores its result before releasing its semaphore (R6). Not decided: permit conservation as an arithmetic "
    "invariant over histories; fairness.")
ASSUMPTIONS = ["detail::condition_variable::wait/wait_until release and re-acquire the lock they are given (C02/C07)",
               "callers of the detail classes pass the lock that protects the semaphore (checked for the public wrappers in R6)"]
THOROUGH_CONFIGS = [["-UNDEBUG", "-DPIKA_DEBUG"]]
FLOORS = {"C08.R8": 5, "C08.R1": 14, "C08.R2": 3, "C08.R3": 2, "C08.R4": 6, "C08.R5": 4, "C08.R6": 10, "C08.R7": 8, "C08.R10": 3}

CS = "pika::detail::counting_semaphore"
SS = "pika::detail::sliding_semaphore"


def decrements(fn, field="this->value_"):
    """(b, i, ev, amount_text)"""
    out = []
    for b, i, ev in fn.all_events():
        if ev.get("k") != "write" or P(ev["lhs"]) != field:
            continue
        if ev["op"] == "-=":
            out.append((b, i, ev, P(ev["rhs"])))
        elif ev["op"] == "--":
            out.append((b, i, ev, "1"))
        elif ev["op"] in ("=",):
            out.append((b, i, ev, "?"))
    return out


def run(rep, tier):
    rep.rule("C08.R1", "K1: value_ / lower_limit_ / max_difference_ accessed only with the caller's lock held")
    rep.rule("C08.R2", "K4: permits are consumed (value_ -= n, --value_) only after !(value_ < n) was observed with no lock release in between")
    rep.rule("C08.R3", "K7: wait_until returns false for exactly those values of condition_variable::wait_until's return set that mean timeout")
    rep.rule("C08.R4", "K7: try_acquire/try_wait/wait_until return true iff the path consumed a permit")
    rep.rule("C08.R5", "K2/K1: signal adds permits before waking; re-locks after each consumed lock; wake loop exits only on no-waiters/no-permits/count")
    rep.rule("C08.R8", "K7 (evaluated on a grid of upper limit / window / lower limit): sliding_semaphore::wait blocks exactly while upper_limit - "
                       "max_difference_ > lower_limit_, parks in cond_.wait on every turn and re-tests after every wake-up; try_wait succeeds exactly when "
                       "the limit is inside the window and never blocks otherwise; signal never lowers lower_limit_; the wake loops of both "
                       "semaphores stop early only when notify_one found nobody waiting")
    rep.rule("C08.R10", "K4 (freshness of a blocked waiter's test): a loop that parks the caller in cond_.wait / wait_until gives up the lock while it is parked, so everything the "
             "loop's exit test reads from the semaphore (value_, lower_limit_, max_difference_) is read again on every turn: the test mentions no local that was computed from a "
             "member before the loop (set_max_difference / signal / release change the members while the waiter is blocked; a waiter that judges wake-ups by a copy taken on "
             "entry stays blocked although it is within the configured distance, or proceeds although it is not)")
    rep.rule("C08.R6", "K8: public wrappers lock mtx_ and forward; sync_wait stores its result before sem.release()")

    F = facts(rep, lib("synchronization", "src/detail/counting_semaphore.cpp"), [r"^pika::detail::counting_semaphore::"])
    G = facts(rep, lib("synchronization", "src/detail/sliding_semaphore.cpp"), [r"^pika::detail::sliding_semaphore::"])
    CV = facts(rep, lib("synchronization", "src/detail/condition_variable.cpp"), [r"^pika::detail::condition_variable::wait"])

    def get(Fx, q, n=1):
        fs = [f for f in Fx.find("^" + q + "$") if f.file.endswith(".cpp")]
        if len(fs) != n:
            raise AnalysisBroken("expected %d definition(s) of %s, found %d" % (n, q, len(fs)))
        return fs[0]

    cs = {n: get(F, CS + "::" + n) for n in ("wait", "wait_until", "try_wait", "try_acquire", "signal", "signal_all")}
    # the permit counter: the member the semaphore's functions add permits to / take permits from (whatever it is called)
    from collections import Counter
    cnt_ = Counter(P(e["lhs"]) for fn_ in cs.values() for _, _, e in fn_.all_events()
                   if e.get("k") == "write" and e.get("op") in ("+=", "-=", "--", "++") and P(e["lhs"]).startswith("this->"))
    if not cnt_:
        raise AnalysisBroken("%s: the permit counter was not identified" % CS)
    adds_ = [cnt_.most_common(1)[0][0]]
    VALP = adds_[0]
    VAL = VALP[len("this->"):]
    ss = {n: get(G, SS + "::" + n) for n in ("set_max_difference", "wait", "try_wait", "signal", "signal_all")}

    # completeness: no other member touches the fields
    for Fx, tab, rec, fields in ((F, cs, CS, [VAL]), (G, ss, SS, ["lower_limit_", "max_difference_"])):
        for f in Fx.fns:
            if f.kind in ("ctor", "dtor") or f in tab.values():
                continue
            for _, _, ev in f.all_events():
                if ev.get("k") == "read" and ev["e"].get("name") in fields and ev["e"].get("rec") == rec:
                    raise AnalysisBroken("%s accesses %s but is not in the C08 table" % (f.qname, ev["e"]["name"]))

    flows = {}
    for tab, rec, fields in ((cs, CS, [VAL]), (ss, SS, ["lower_limit_", "max_difference_"])):
        for n, fn in tab.items():
            lf = LockFlow(fn)
            flows[fn.qname] = lf
            for fld in fields:
                check_guarded(rep, "C08.R1", fn, rec, fld, lock_id="@", flow=lf)

    # R2
    for n in ("wait", "wait_until", "try_acquire"):
        fn = cs[n]
        lf = flows[fn.qname]

        def kill(ev, pos, rel=lf.release_events):
            if pos in rel:
                return lambda atom: VAL in atom
            return None
        ff = FactFlow(fn, kill=kill)
        ds = decrements(fn, VALP)
        if not ds:
            rep.bad("C08.R2", fn, fn.loc, "never-consumes", "%s::%s returns successfully without taking permits out of %s: more acquisitions succeed than "
                    "permits were released" % (CS, n, VAL))
            continue
        for b, i, ev, amt in ds:
            fb = ff.before.get((b, i))
            if fb is None:
                continue
            need = ("%s < %s" % (VALP, amt), False)
            if need in fb:
                rep.ok("C08.R2", fn, "value_ reduced by %s at %s only after !(value_ < %s) under the same critical section" % (amt, loc_of(ev), amt))
            else:
                rep.bad("C08.R2", fn, loc_of(ev), "consume:" + amt, "permits are consumed on a path where 'value_ >= %s' was not "
                        "established or the lock was released since (facts: %s)" % (amt, sorted(fb)),
                        path=[{"block": x} for x in block_path(fn, b)])

    # R3: return-set rule
    cvw = [f for f in CV.find(r"^pika::detail::condition_variable::wait_until$") if f.file.endswith(".cpp")]
    if len(cvw) != 1:
        raise AnalysisBroken("condition_variable::wait_until not found")
    rset = return_set(cvw[0])
    names = {n for n, v in rset}
    if "timeout" not in names or len(names) < 2:
        raise AnalysisBroken("unexpected return set of condition_variable::wait_until: %s" % sorted(names))
    fn = cs["wait_until"]
    sites = []
    from engine.kinds import expand_locals
    xcond = {}
    for b, blk in fn.blocks.items():
        if blk.cond is None:
            continue
        calls = []
        # the result may be kept in (const) locals before it is tested: read the condition through them
        xcond[b] = expand_locals(fn, blk.cond)
        walk(xcond[b], lambda x: calls.append(x) if x.get("k") == "call" and callee_of(x) == "pika::detail::condition_variable::wait_until" else None)
        if calls:
            sites.append((b, blk, calls[0]))
    if len(sites) != 1:
        raise AnalysisBroken("counting_semaphore::wait_until: expected one branch on cond_.wait_until's result, found %d" % len(sites))
    b, blk, call = sites[0]
    for name, val in sorted(rset):
        try:
            truth = bool(eval_tree(xcond[b], {T(call): val}))
        except Unknown as e:
            raise AnalysisBroken("cannot evaluate %s for %s: %s" % (T(xcond[b]), name, e))
        tgt = [t for l, t, _ in blk.succ if l == ("true" if truth else "false")][0]
        kind, val_tree, rev = first_outcome(fn, tgt)
        gives_up = kind == "return" and T(strip(val_tree)) == "false"
        if name == "timeout":
            if gives_up:
                rep.ok("C08.R3", fn, "result 'timeout' leads to return false")
            else:
                rep.bad("C08.R3", fn, loc_of(call), "timeout-not-reported", "a timed-out wait does not return false (outcome: %s)" % kind)
        else:
            if gives_up:
                rep.bad("C08.R3", fn, loc_of(call), "wakeup-reported-as-timeout:" + name,
                        "cond_.wait_until can return '%s' (woken by release() before the deadline); the test %s is then %s and "
                        "wait_until returns false without re-testing value_: a permit released before the deadline is not "
                        "acquired and the call reports failure" % (name, T(blk.cond), truth))
            else:
                rep.ok("C08.R3", fn, "result '%s' re-tests value_ (outcome %s)" % (name, kind))

    # R4
    def consumed_marks(fn):
        pos = set((b, i) for b, i, ev, amt in decrements(fn, VALP))
        for b, i, ev in fn.all_events():
            if ev.get("k") == "call" and callee_of(ev) in (CS + "::wait", SS + "::wait"):
                pos.add((b, i))
        return pos
    for fn, need_calls in ((cs["try_acquire"], False), (cs["try_wait"], True), (cs["wait_until"], False), (ss["try_wait"], True)):
        marks = consumed_marks(fn)
        if not marks and fn is ss["try_wait"]:
            continue     # a sliding semaphore has no permits to take: its try_wait is decided by value in R8 (window arithmetic)
        if not marks:
            rep.bad("C08.R4", fn, fn.loc, "never-consumes", "%s has no path that takes a permit: it can only report success without consuming one" % fn.qname)
            continue

        def tr(st, ev, pos, marks=marks):
            return st | {"w"} if pos in marks else st
        may, _, _ = forward(fn, frozenset(), tr, None, lambda a, b: a | b)
        must, _, _ = forward(fn, frozenset(), tr, None, lambda a, b: a & b)
        for b, i, ev in fn.all_events():
            if ev.get("k") != "return" or (b, i) not in may:
                continue
            v = strip(ev.get("e"))
            if v.get("k") != "lit":
                raise AnalysisBroken("%s returns non-literal %s" % (fn.qname, T(v)))
            if v["v"] is True:
                if "w" in must[(b, i)]:
                    rep.ok("C08.R4", fn, "return true at %s only after a permit was consumed" % loc_of(ev))
                else:
                    rep.bad("C08.R4", fn, loc_of(ev), "true-without-permit", "returns true on a path that consumed no permit")
            else:
                if "w" in may[(b, i)]:
                    rep.bad("C08.R4", fn, loc_of(ev), "false-after-consume", "returns false on a path that consumed a permit")
                else:
                    rep.ok("C08.R4", fn, "return false at %s leaves the count untouched" % loc_of(ev))

    # R5 signal
    for fn, field, allowed in ((cs["signal"], VALP, (VAL, "count", "notify_one")),
                               (ss["signal"], "this->lower_limit_", ("count", "notify_one"))):
        lf = flows[fn.qname]
        notifies = [(b, i, ev) for b, i, ev in fn.all_events()
                    if ev.get("k") == "call" and callee_short(ev) == "notify_one" and P(ev.get("recv")) == "this->cond_"]
        if len(notifies) != 1:
            raise AnalysisBroken("%s: expected one cond_.notify_one" % fn.qname)
        nb, ni, nev = notifies[0]
        adds = [(b, i) for b, i, ev in fn.all_events() if ev.get("k") == "write" and P(ev["lhs"]) == field]
        if not adds:
            rep.bad("C08.R5", fn, fn.loc, "no-update", "%s never updates %s: released permits are lost" % (fn.qname, field))
        elif precedes_on_all_paths(fn, lambda e: e.get("k") == "write" and P(e["lhs"]) == field, (nb, ni)):
            rep.ok("C08.R5", fn, "%s is updated before the first notify_one" % field)
        else:
            rep.bad("C08.R5", fn, loc_of(nev), "notify-before-update", "a waiter can be woken before %s is updated" % field)
        # the guard handed to notify_one is owned at that point and is moved
        moved = nev.get("args") and is_moved(nev["args"][0])
        # state before the temporary that consumes the guard
        tmp = [(b, i) for b, i, ev in fn.all_events() if ev.get("k") == "ctor" and ev.get("copymove") == "move"
               and ev.get("rec") == "std::unique_lock" and not ev.get("var") and b == nb and i < ni]
        pos = tmp[-1] if tmp else (nb, ni)
        held = lf.held_before(pos)
        if moved and held and any(h.startswith("@") for h in held):
            rep.ok("C08.R5", fn, "notify_one consumes a lock that is held on every path (re-acquired in the loop)")
        else:
            rep.bad("C08.R5", fn, loc_of(nev), "notify-without-lock", "cond_.notify_one is handed a lock that is not held on every "
                    "path (missing re-lock after the previous notify) or is not moved")
        loop = loop_of(fn, nb)
        if loop is None:
            rep.bad("C08.R5", fn, loc_of(nev), "no-wake-loop", "notify_one is not in a loop: releasing several permits wakes one waiter only")
        else:
            bad_exit = []
            # identifiers that count permits / waiters, whatever they are called: integer parameters, locals
            # initialised from cond_.size(..), and locals stepped (++ / --) inside the loop
            countlike = set(p_["name"] for p_ in fn.params if re.search(r"int|size_t|long|ptrdiff|short|unsigned", str(p_.get("type", ""))))
            for _, _, e_ in fn.all_events():
                if e_.get("k") == "decl" and e_.get("init") is not None and re.search(r"cond_\.size\(", T(e_["init"])):
                    countlike.add(e_.get("var"))
            for b_ in loop:
                for e_ in fn.blocks[b_].events:
                    if e_.get("k") == "write" and e_.get("op") in ("++", "--") and re.match(r"^\w+$", P(e_["lhs"])):
                        countlike.add(P(e_["lhs"]))
            for b in loop:
                blk = fn.blocks[b]
                for lab, t, _ in blk.succ:
                    if t not in loop:
                        atom = cond_atoms(blk.cond)[0] if blk.cond is not None else ""
                        ids = set(re.findall(r"[A-Za-z_]\w*", atom))
                        counting = bool(ids) and ids <= countlike
                        if not any(a in atom for a in allowed if a != "count") and not counting:
                            bad_exit.append((b, atom))
            # no return may bypass the wake loop: every path from the permit update to the exit enters the loop (its own exits are
            # the only way not to notify: no waiters / no permits / count reached)
            # (paths that leave before the permits are added have nothing to wake for)
            start = adds[0][0] if adds else fn.entry
            seen, work, bypass = {start}, [start], None
            while work:
                b = work.pop()
                if b == fn.exit:
                    bypass = b
                    break
                for _, t in fn.succs(b):
                    if t not in loop and t not in seen:
                        seen.add(t)
                        work.append(t)
            if bypass is not None:
                rets = [loc_of(e) for b in seen for e in fn.blocks[b].events if e.get("k") == "return"]
                rep.bad("C08.R5", fn, rets[0] if rets else fn.loc, "wake-loop-bypass",
                        "%s can return without entering the wake loop: permits are added but queued waiters are "
                        "never notified (return at %s)" % (fn.qname, rets))
            else:
                rep.ok("C08.R5", fn, "every path to the exit enters the wake loop")
            # sliding semaphore: how far the limit moved says nothing about how many waiters became eligible (they
            # wait for different upper limits, the queue is FIFO): the loop has to offer a wake-up to every queued
            # waiter, i.e. its counter starts at cond_.size(l), unmodified
            if field == "this->lower_limit_":
                cvars = set()
                for b in loop:
                    blk = fn.blocks[b]
                    if blk.cond is not None and any(t not in loop for _, t, _ in blk.succ):
                        for m_ in re.finditer(r"\b([A-Za-z_]\w*)\b", cond_atoms(blk.cond)[0]):
                            cvars.add(m_.group(1))
                decls = [(b, i, e) for b, i, e in fn.all_events() if e.get("k") == "decl" and e.get("var") in cvars and e.get("init") is not None]
                full = [e for b, i, e in decls if re.match(r"^this->cond_\.size\(l\)$", T(strip(e["init"])))]
                if decls and len(full) == len(decls) and not any(e.get("k") == "write" and P(e["lhs"]) in cvars and e.get("op") not in ("--", "++") for _, _, e in fn.all_events()):
                    rep.ok("C08.R5", fn, "the wake loop is bounded by the number of queued waiters (cond_.size(l))")
                else:
                    rep.bad("C08.R5", fn, loc_of(decls[0][2]) if decls else fn.loc, "wake-count", "sliding_semaphore::signal does not offer a wake-up to every queued waiter "
                            "(loop counter initialised with %s): a waiter whose upper limit is now within the window stays suspended"
                            % [T(strip(e["init"])) for _, _, e in decls])
            if field == "this->value_":
                # evaluated: while fewer than `count` waiters were offered a wake-up and permits are still available
                # (value_ > 0), no exit test of the loop fires (only notify_one's "nobody is waiting" may end it early) -
                # whatever the woken waiters did to value_ in the meantime (the lock is released around every notify)
                ints = [p_["name"] for p_ in fn.params if re.search(r"int|size_t|long|ptrdiff|short|unsigned", str(p_.get("type", "")))]
                steps = set()
                for b_ in loop:
                    for e_ in fn.blocks[b_].events:
                        if e_.get("k") == "write" and e_.get("op") in ("++", "+=") and re.match(r"^\w+$", P(e_["lhs"])):
                            steps.add(P(e_["lhs"]))
                if len(ints) == 1 and len(steps) == 1:
                    cnt, ctr = ints[0], sorted(steps)[0]
                    early = None
                    nsamp = 0
                    for c_ in range(1, 6):
                        for i_ in range(0, c_):
                            for v_ in (1, 2, 3, 5, 9):
                                env = {cnt: c_, ctr: i_, field: v_}
                                for b_ in loop:
                                    blk = fn.blocks[b_]
                                    if blk.cond is None:
                                        continue
                                    outs = [lab for lab, t, _ in blk.succ if t not in loop]
                                    if not outs:
                                        continue
                                    try:
                                        val = bool(eval_tree(blk.cond, env))
                                    except Unknown:
                                        continue
                                    nsamp += 1
                                    if ("true" if val else "false") in outs and early is None:
                                        early = (dict(env), T(blk.cond), blk)
                    if early:
                        rep.bad("C08.R5", fn, loc_of(nev), "wake-loop-stops-early", "the wake loop of %s stops although fewer than `%s` waiters were "
                                "offered a wake-up and permits are available: %s is false for %s (woken waiters change %s while the loop runs; "
                                "a blocked acquirer is never notified, its permit stays in the semaphore)" % (fn.qname, cnt, early[1], early[0], field))
                    elif nsamp:
                        rep.ok("C08.R5", fn, "the wake loop goes on while fewer than `%s` wake-ups were offered and permits remain (%d sample evaluations)" % (cnt, nsamp))
                    else:
                        raise AnalysisBroken("%s: loop exit tests not evaluable" % fn.qname)
                else:
                    raise AnalysisBroken("%s: wake loop counter / count parameter not identified (%s, %s)" % (fn.qname, ints, sorted(steps)))
            if bad_exit:
                rep.bad("C08.R5", fn, loc_of(nev), "wake-loop-exit", "wake loop can be left on a condition other than "
                        "no-waiters / no-permits / count reached: %s" % bad_exit)
            else:
                rep.ok("C08.R5", fn, "wake loop exits only on %s" % (allowed,))

    sliding_window_rules(rep, ss)
    wake_break_rules(rep, [cs["signal"], ss["signal"]])

    # R6 wrappers
    # ---- R10: wait loops test fresh members
    from engine.kinds import loop_of as _lo10, reaching_defs as _rd10
    n10 = 0
    for Fx in (F, G):
        for fn in Fx.fns:
            if fn.parent != -1 or fn.pattern:
                continue
            parks = [(b, i, e) for b, i, e in fn.all_events() if e.get("k") == "call" and callee_short(e) in ("wait", "wait_until", "wait_for") and e.get("recv") is not None
                     and P(e["recv"]).startswith("this->cond")]
            for b, i, e in parks:
                lp = _lo10(fn, b)
                if lp is None:
                    continue
                n10 += 1
                stale = None
                for hb in sorted(lp):
                    blk = fn.blocks[hb]
                    if blk.cond is None or not any(t not in lp for _, t, _ in blk.succ):
                        continue            # not an exit test of the loop
                    for v in set(re.findall(r"[A-Za-z_]\w*", T(blk.cond))):
                        for d in _rd10(fn, v, (b, i)):
                            if d[0] in lp:
                                continue
                            de = fn.blocks[d[0]].events[d[1]]
                            tree = de.get("init") if de.get("k") == "decl" else de.get("rhs")
                            if tree is not None and "this->" in T(tree):
                                stale = (v, T(tree), loc_of(de), T(blk.cond))
                if stale:
                    rep.bad("C08.R10", fn, loc_of(e), "stale-wait-test:" + fn.qname.rsplit("::", 1)[-1], "%s parks in %s inside a loop whose exit test '%s' uses '%s', computed once "
                            "before the loop from %s (%s): the members can change while the waiter is parked (the lock is released), the waiter keeps judging wake-ups by the value "
                            "it saw on entry" % (fn.qname.rsplit("::", 1)[-1], T(e)[:50], stale[3][:80], stale[0], stale[1][:80], stale[2].rsplit("/", 1)[-1]))
                else:
                    rep.ok("C08.R10", fn, "%s: the exit test of the loop around %s reads the members on every turn" % (fn.qname.rsplit("::", 1)[-1], T(e)[:40]))
    if n10 < 3:
        raise AnalysisBroken("C08.R10: only %d parking loops found in the semaphores" % n10)

    D = facts(rep, driver("c08_semaphore.cpp"),
              [r"^pika::counting_semaphore::", r"^pika::sliding_semaphore_var::", r"^pika::sync_wait_detail::sync_wait_receiver_impl::sync_wait_receiver_type::"])
    table = [("pika::counting_semaphore::release", CS + "::signal", ["update"], True),
             ("pika::counting_semaphore::try_acquire", CS + "::try_acquire", [], False),
             ("pika::counting_semaphore::acquire", CS + "::wait", ["1"], False),
             ("pika::counting_semaphore::try_acquire_until", CS + "::wait_until", ["abs_time", "1"], False),
             ("pika::sliding_semaphore_var::wait", SS + "::wait", ["upper_limit"], False),
             ("pika::sliding_semaphore_var::try_wait", SS + "::try_wait", ["upper_limit"], False),
             ("pika::sliding_semaphore_var::signal", SS + "::signal", ["lower_limit"], True),
             ("pika::sliding_semaphore_var::signal_all", SS + "::signal_all", [], True),
             ("pika::sliding_semaphore_var::set_max_difference", SS + "::set_max_difference", ["max_difference", "lower_limit"], False)]
    for q, callee, fwd, moved in table:
        fs = D.find("^" + q + "$", pattern=False)
        if not fs:
            raise AnalysisBroken("wrapper %s not instantiated" % q)
        for fn in fs:
            lf = LockFlow(fn)
            calls = [(b, i, ev) for b, i, ev in fn.all_events() if ev.get("k") == "call" and callee_of(ev) == callee]
            if len(calls) != 1:
                rep.bad("C08.R6", fn, fn.loc, "wrapper-call", "%s must call %s exactly once (found %d)" % (q, callee, len(calls)))
                continue
            b, i, ev = calls[0]
            args = ev.get("args", [])
            pos = (b, i)
            if moved:
                tmp = [(bb, ii) for bb, ii, e2 in fn.all_events() if e2.get("k") == "ctor" and e2.get("copymove") == "move"
                       and e2.get("rec") == "std::unique_lock" and not e2.get("var") and bb == b and ii < i]
                pos = tmp[-1] if tmp else pos
            held = lf.held_before(pos) or frozenset()
            okl = "this->mtx_" in held
            okf = [P(a) for a in args[1:]] == fwd and (is_moved(args[0]) == moved)
            rets = [e for _, _, e in fn.all_events() if e.get("k") == "return" and e.get("e") is not None]
            okr = True
            if fn.raw.get("ret") not in ("void",):
                okr = len(rets) == 1 and strip(rets[0]["e"]).get("sid") == ev.get("sid")
            if okl and okf and okr:
                rep.ok("C08.R6", fn, "locks mtx_, forwards %s to %s and returns its result" % (fwd, short_(callee)))
            else:
                rep.bad("C08.R6", fn, loc_of(ev), "wrapper", "wrapper must hold mtx_ (%s), forward %s unchanged (%s) and return the "
                        "callee's result (%s)" % (okl, fwd, okf, okr))
    # sync_wait: result stored before the semaphore is released
    for member in ("set_value", "set_error"):
        fs = D.find(r"^pika::sync_wait_detail::sync_wait_receiver_impl::sync_wait_receiver_type::%s$" % member)
        if not fs:
            raise AnalysisBroken("sync_wait_receiver_impl::sync_wait_receiver_type::%s not found" % member)
        for fn in fs:
            sig = [(b, i) for b, i, ev in fn.all_events() if ev.get("k") == "call" and callee_short(ev) == "signal_set_called"]
            if len(sig) != 1:
                raise AnalysisBroken("%s: expected one signal_set_called()" % fn.qname)
            ok = precedes_on_all_paths(fn, lambda e: e.get("k") == "call" and callee_short(e) == "emplace" and
                                       "state.value" in P(e.get("recv") or {}), sig[0])
            if ok:
                rep.ok("C08.R6", fn, "result emplaced before signal_set_called()")
            else:
                rep.bad("C08.R6", fn, fn.loc, "store-after-release", "sync_wait's result is not stored before its semaphore is released")
    ssc = D.find(r"^pika::sync_wait_detail::sync_wait_receiver_impl::sync_wait_receiver_type::signal_set_called$")
    if not ssc:
        raise AnalysisBroken("signal_set_called not found")
    for fn in ssc:
        if [1 for b, i, ev in fn.all_events() if ev.get("k") == "call" and callee_short(ev) == "release" and "sem" in P(ev.get("recv") or {})]:
            rep.ok("C08.R6", fn, "signal_set_called releases the semaphore")
        else:
            rep.bad("C08.R6", fn, fn.loc, "no-release", "signal_set_called() does not release the semaphore: sync_wait never returns")

    # ---- R7: the condition variable the semaphores park on (the same rules decide C02 / C07)
    from .common import import_rules
    import_rules(rep, tier, "C07", ("C07.R5",), "C08.R7",
                 "K2/K3 (shared with C07.R5 / C02.R1-R2): detail::condition_variable hand-shake under the semaphore's lock - enqueue before releasing the lock, the wait result "
                 "('timeout' vs 'signaled') read with the lock re-acquired, notify consumes the entry before resuming: a timed acquire that reports a timeout has not swallowed a permit's wake-up")


    import_rules(rep, tier, "C07", ("C07.R6",), "C08.R9",
                 "K2/K8 (shared with C07.R6): acquirers on plain OS threads (sync_wait from outside the runtime, any non-pika thread) park in default_agent: resume()/abort() "
                 "deliver on every path and only after the target announced that it parked; every member a waiter is parked in announces running_ = false before it blocks - "
                 "otherwise a release that overlaps the acquirer's way to sleep leaves it blocked with its permit available")


def short_(q):
    return q.rsplit("::", 1)[-1]


def _close_env(fn, env):
    """locals whose single initialiser evaluates under env are added to it (helpers spliced in place bind their by-value parameters to such locals)"""
    from engine.kinds import eval_tree as _e, Unknown as _U
    env = dict(env)
    decls = {}
    for _, _, e in fn.all_events():
        if e.get("k") == "decl" and e.get("init") is not None:
            decls.setdefault(e["var"], []).append(e["init"])
    for _ in range(4):
        for v, inits in decls.items():
            if v in env or len(inits) != 1:
                continue
            try:
                env[v] = _e(inits[0], env)
            except _U:
                pass
    return env


def sliding_window_rules(rep, ss):
    """C08.R8, first part - see the rule text"""
    from engine.kinds import eval_walk
    wt, tw, sg = ss["wait"], ss["try_wait"], ss["signal"]

    def is_park(e):
        return e.get("k") == "call" and callee_short(e) == "wait" and e.get("recv") is not None and P(e["recv"]) == "this->cond_"

    def limit_param(fn):
        ps = [p_["name"] for p_ in fn.params if re.search(r"int|long", str(p_.get("type", ""))) and "unique_lock" not in str(p_.get("type", ""))]
        if len(ps) != 1:
            raise AnalysisBroken("%s: the limit parameter was not identified (%s)" % (fn.qname, ps))
        return ps[0]
    grid = [(u, d, l) for u in (0, 5, 10) for d in (0, 1, 3) for l in (u - d - 2, u - d - 1, u - d, u - d + 1, u + 4)]
    up = limit_param(wt)
    bad = None
    n = 0
    for u, d, l in grid:
        env = _close_env(wt, {up: u, "this->max_difference_": d, "this->lower_limit_": l})
        must_wait = (u - d) > l
        for evs, end in eval_walk(wt, wt.entry, tree_env=env):
            n += 1
            parked = any(is_park(e) for _, _, e in evs)
            if end == "limit":
                raise AnalysisBroken("sliding_semaphore::wait: not decided for %s" % env)
            if must_wait and not parked:
                bad = bad or ("no-park", env, "does not park in cond_.wait although the limit is outside the window" + (" (it spins with the lock held)" if end == "loop" else " (returns at once)"))
            elif must_wait and end != "loop":
                bad = bad or ("no-retest", env, "returns after one wake-up without re-testing the window (a wake-up meant for another waiter lets it through)")
            elif (not must_wait) and parked:
                bad = bad or ("blocks-inside-window", env, "blocks although the limit is inside the window (upper_limit - max_difference_ <= lower_limit_)")
    if bad:
        rep.bad("C08.R8", wt, wt.loc, "window-wait:" + bad[0], "sliding_semaphore::wait %s; sample %s" % (bad[2], bad[1]))
    else:
        rep.ok("C08.R8", wt, "wait blocks exactly while upper_limit - max_difference_ > lower_limit_, parking and re-testing (%d evaluated paths)" % n, sites=n)
    up = limit_param(tw)
    bad = None
    n = 0
    for u, d, l in grid:
        env = _close_env(tw, {up: u, "this->max_difference_": d, "this->lower_limit_": l})
        inside = not ((u - d) > l)
        for evs, end in eval_walk(tw, tw.entry, tree_env=env):
            n += 1
            if end != "return" or evs[-1][2].get("e") is None:
                raise AnalysisBroken("sliding_semaphore::try_wait: path without a return value for %s" % env)
            v = strip(evs[-1][2]["e"])
            if v.get("k") != "lit":
                raise AnalysisBroken("sliding_semaphore::try_wait returns a non-literal")
            called_wait = any(e.get("k") == "call" and callee_short(e) == "wait" and (e.get("recv") is None or P(e["recv"]) in ("this", "this->cond_")) for _, _, e in evs)
            if inside and v.get("v") is not True:
                bad = bad or ("false-inside-window", env, "reports failure although the limit is inside the window")
            if (not inside) and v.get("v") is not False:
                bad = bad or ("true-outside-window", env, "reports success although the limit is outside the window")
            if (not inside) and called_wait:
                bad = bad or ("blocks", env, "enters wait() (blocks) when the limit is outside the window")
    if bad:
        rep.bad("C08.R8", tw, tw.loc, "window-try:" + bad[0], "sliding_semaphore::try_wait %s; sample %s" % (bad[2], bad[1]))
    else:
        rep.ok("C08.R8", tw, "try_wait is true exactly when upper_limit - max_difference_ <= lower_limit_ and never blocks otherwise (%d evaluated paths)" % n, sites=n)
    # signal: lower_limit_ never moves backwards
    lp = limit_param(sg)
    ws = [(b, i, e) for b, i, e in sg.all_events() if e.get("k") == "write" and P(e["lhs"]) == "this->lower_limit_"]
    if len(ws) != 1:
        raise AnalysisBroken("sliding_semaphore::signal: expected one update of lower_limit_, found %d" % len(ws))
    from engine.kinds import eval_tree, Unknown, expand_locals
    okm = True
    for new_, old_ in ((3, 7), (7, 3), (5, 5)):
        env = {lp: new_, "this->lower_limit_": old_}
        rhs = expand_locals(sg, ws[0][2]["rhs"])
        try:
            val = eval_tree(rhs, env)
        except Unknown:
            # (std::max)(a, b) and friends
            r0 = strip(rhs)
            if r0.get("k") == "call" and callee_short(r0) in ("max",) and len(r0.get("args") or []) == 2:
                try:
                    val = max(eval_tree(r0["args"][0], env), eval_tree(r0["args"][1], env))
                except Unknown:
                    raise AnalysisBroken("sliding_semaphore::signal: new lower_limit_ not evaluable: %s" % T(rhs))
            elif r0.get("k") == "call" and callee_short(r0) in ("min",):
                val = min(new_, old_)
            else:
                raise AnalysisBroken("sliding_semaphore::signal: new lower_limit_ not evaluable: %s" % T(rhs))
        if ws[0][2].get("op") == "+=":
            val = old_ + val
        if val != max(new_, old_):
            okm = False
            rep.bad("C08.R8", sg, loc_of(ws[0][2]), "limit-not-monotone", "sliding_semaphore::signal(%d) with lower_limit_ == %d leaves %s: the limit "
                    "must become max(old, new) (a late signal with a smaller value re-blocks waiters, a dropped larger one never releases them)" % (new_, old_, val))
            break
    if okm:
        rep.ok("C08.R8", sg, "signal sets lower_limit_ = max(lower_limit, lower_limit_)")


def wake_break_rules(rep, fns):
    """C08.R8, second part: inside a wake loop the only early exit is 'notify_one returned false' (nobody is waiting)."""
    from engine.kinds import loop_of as _loop_of
    for fn in fns:
        ns = [(b, i, e) for b, i, e in fn.all_events() if e.get("k") == "call" and callee_short(e) == "notify_one" and P(e.get("recv")) == "this->cond_"]
        if len(ns) != 1:
            raise AnalysisBroken("%s: expected one cond_.notify_one" % fn.qname)
        nb = ns[0][0]
        loop = _loop_of(fn, nb)
        if loop is None:
            continue            # reported by R5
        for b in loop:
            blk = fn.blocks[b]
            if blk.cond is None:
                continue
            atom, pos = cond_atoms(blk.cond)
            if "notify_one(" not in atom:
                continue
            for lab, t, _ in blk.succ:
                if lab not in ("true", "false"):
                    continue
                notified = (lab == "true") == pos
                if t not in loop and notified:
                    rep.bad("C08.R8", fn, loc_of(ns[0][2]), "wake-loop-stops-after-first", "%s leaves its wake loop when notify_one reports that a waiter WAS "
                            "woken: only one waiter is ever offered a wake-up, the other eligible waiters stay blocked" % fn.qname)
                elif t not in loop:
                    rep.ok("C08.R8", fn, "the wake loop is left early only when notify_one found nobody waiting")
