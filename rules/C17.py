# C17 — concurrent queues return every element exactly once (structural part; DESIGN.md §5 C17)
import re
from engine.core import AnalysisBroken, P, T, callee_of, callee_short, cond_atoms, loc_of, strip, block_path
from engine.kinds import FactFlow, CountFlow, precedes_on_all_paths, reaching_init, eval_tree
from .common import facts, lib, driver, witness, local_init

EXPLANATION = (
    "Static analysis of the current source. Decided: contiguous_index_queue::pop_left/pop_right re-test 'empty' on the "
    "range they are about to exchange before every compare-exchange (also after a failed one), return nullopt only on "
    "the empty edge and an index only after the exchange succeeded, and the range word is modified by compare-exchange "
    "only (R1); by symbolic evaluation of the range helpers pop_left returns first and installs [first+1,last), "
    "pop_right returns last-1 and installs [first,last-1): the returned index is exactly the one removed (R2); the "
    "range fits a lock-free 64-bit atomic (R3); in the lock-free deque every anchor compare-exchange installs a tag "
    "different from the expected one and every node-link compare-exchange advances the link tag, pushes/pops report "
    "success only on a successful anchor exchange and an unstable push is followed by the matching stabilisation (R4); "
    "every push/pop of the queue back-ends performs exactly one container operation, LIFO back-ends pop where they "
    "push, FIFO back-ends at the opposite end, and stealing uses the opposite end of the owner (R5). Not decided: "
    "linearizability of the deque; moodycamel's ConcurrentQueue (third party) is not analysed.")
ASSUMPTIONS = ["std::atomic<range>::compare_exchange_weak is atomic on the 64-bit range word", "tagged_ptr_pair::cas is a 128-bit compare-exchange"]
THOROUGH_CONFIGS = [["-UNDEBUG", "-DPIKA_DEBUG"]]
FLOORS = {"C17.R8": 4, "C17.R9": 20, "C17.R1": 6, "C17.R2": 2, "C17.R3": 3, "C17.R4": 12, "C17.R5": 9, "C17.R6": 1, "C17.R7": 2, "C17.R11": 2, "C17.R12": 1}

CIQ = "pika::concurrency::detail::contiguous_index_queue"
_cache = {}


def load(rep):
    if "D" not in _cache:
        _cache["D"] = facts(rep, driver("c17_queues.cpp"), [r"^pika::concurrency::detail::contiguous_index_queue::", r"^pika::concurrency::detail::deque::",
                                                           r"^pika::threads::detail::lockfree_\w+_backend::"])
    return _cache["D"]


# symbolic values: (base, offset) with base in {"F", "L"} or ("const", v)
def sym(e, env, fns, depth=0):
    e = strip(e)
    if not isinstance(e, dict) or depth > 6:
        return None
    k = e.get("k")
    t = P(e)
    if t in env:
        return env[t]
    if k == "lit" and isinstance(e.get("v"), int):
        return ("const", e["v"])
    if k == "bin" and e["op"] in ("+", "-"):
        a, b = sym(e["l"], env, fns, depth + 1), sym(e["r"], env, fns, depth + 1)
        if a and b and b[0] == "const" and a[0] in ("F", "L"):
            return (a[0], a[1] + (b[1] if e["op"] == "+" else -b[1]))
        return None
    if k == "construct" and len(e.get("args", [])) == 2:
        args = e["args"]
        a, b = sym(args[0], env, fns, depth + 1), sym(args[1], env, fns, depth + 1)
        return ("range", a, b) if a and b else None
    if k == "construct" and len(e.get("args", [])) == 1:
        return sym(e["args"][0], env, fns, depth + 1)
    if k == "call" and e.get("recv") is not None and not e.get("args"):
        r = sym(e["recv"], env, fns, depth + 1)
        name = callee_short(e)
        if r and r[0] == "range" and name in fns:
            rets = [x for _, _, x in fns[name].all_events() if x.get("k") == "return"]
            if len(rets) == 1:
                return sym(rets[0]["e"], {"this->first": r[1], "this->last": r[2]}, fns, depth + 1)
        return None
    if k == "un" and e.get("op") in ("&", "*"):
        return sym(e.get("e"), env, fns, depth + 1)       # (&x)->m after a helper was spliced in: the object itself
    if k == "mem":
        b = sym(e.get("base"), env, fns, depth + 1)
        if b and b[0] == "range":
            return b[1] if e["name"] == "first" else b[2] if e["name"] == "last" else None
    return None


def index_queue_rules(rep, rid):
    """R1/R2 of the index queue; also used as C11.R6"""
    D = load(rep)
    helpers = {}
    # the small member functions of the private range struct (whatever they are called) are evaluated symbolically
    for f in D.find("^" + CIQ + r"::range::\w+$", pattern=False):
        if f.kind not in ("ctor", "dtor") and f.parent == -1:
            helpers[f.qname.rsplit("::", 1)[-1]] = f
    # (helpers introduced or renamed after the reference tree are spliced into the pops and need no entry here)
    RNG = None
    for name in ("pop_left", "pop_right"):
        fs = D.find("^" + CIQ + "::" + name + "$", pattern=False)
        if not fs:
            raise AnalysisBroken("%s::%s not instantiated" % (CIQ, name))
        fn = fs[0]
        ff = FactFlow(fn)
        cas = [(b, i, ev) for b, i, ev in fn.all_events() if ev.get("k") == "call" and callee_short(ev).startswith("compare_exchange")]
        if len(cas) != 1:
            raise AnalysisBroken("%s: expected one compare_exchange" % fn.qname)
        b, i, ev = cas[0]
        exp = P(ev["args"][0])
        RNG = P(ev.get("recv"))          # the atomic range the pops work on (the member's name is free)
        fb = ff.before.get((b, i)) or frozenset()
        if ("%s.empty()" % exp, False) in fb:
            rep.ok(rid, fn, "%s: every compare-exchange is preceded by !%s.empty() since %s was last (re)loaded" % (name, exp, exp))
        else:
            rep.bad(rid, fn, loc_of(ev), name + ":cas-without-empty-test", "%s can exchange a range that was reloaded by a failed compare-exchange and not re-tested for emptiness: "
                    "a racing pop empties the queue, this pop then hands out an index beyond the range (an invented / duplicated element)" % name,
                    path=[{"block": x} for x in block_path(fn, b)])
        for bb, ii, e in fn.all_events():
            if e.get("k") != "return" or (bb, ii) not in ff.before:
                continue
            fbr = ff.before[(bb, ii)]
            tv = T(strip(e.get("e")))
            if "nullopt" in tv:
                if ("%s.empty()" % exp, True) in fbr:
                    rep.ok(rid, fn, "%s returns nullopt only when the range was seen empty" % name)
                else:
                    rep.bad(rid, fn, loc_of(e), name + ":nullopt", "%s reports 'empty' although the observed range was not empty" % name)
            else:
                if any(t and "compare_exchange" in a for a, t in fbr):
                    rep.ok(rid, fn, "%s returns an index only after its compare-exchange succeeded" % name)
                else:
                    rep.bad(rid, fn, loc_of(e), name + ":value-without-cas", "%s returns an index without having won the compare-exchange: two consumers get the same index" % name)
        # symbolic evaluation of the loop body
        env = {exp: ("range", ("F", 0), ("L", 0))}
        body = []
        # the local that carries the popped index: assigned in the body and mentioned by the value-returning return
        rets0 = [e for _, _, e in fn.all_events() if e.get("k") == "return" and "nullopt" not in T(e.get("e"))]
        assigned = set(P(e["lhs"]) for _, _, e in fn.all_events() if e.get("k") == "write" and e.get("op") == "=") | \
            set(P(e["recv"]) for _, _, e in fn.all_events() if e.get("k") == "call" and e.get("op") == "=" and e.get("recv") is not None)
        idxs = [v for v in assigned if v not in (exp, P(ev["args"][1])) and re.match(r"^\w+$", v) and rets0 and
                all(re.search(r"(?<![\w.>])%s(?![\w(])" % re.escape(v), T(e["e"])) for e in rets0)]
        IDX = idxs[0] if len(idxs) == 1 else "index"
        for blk_id in sorted(fn.blocks, reverse=True):
            blk = fn.blocks[blk_id]
            for e in blk.events:
                if e.get("k") == "write" and e.get("op") == "=" and P(e["lhs"]) in (IDX, P(ev["args"][1])):
                    body.append((e, e["lhs"], e["rhs"]))
                elif e.get("k") == "call" and e.get("op") == "=" and e.get("recv") is not None and P(e["recv"]) in (IDX, P(ev["args"][1])):
                    body.append((e, e["recv"], e["args"][0]))
        des_name = P(ev["args"][1])
        for e, lhs, rhs in sorted(body, key=lambda x: int(loc_of(x[0]).rsplit(":", 1)[-1])):
            v = sym(rhs, env, helpers)
            if v is None:
                raise AnalysisBroken("%s: cannot evaluate %s" % (fn.qname, T(rhs)))
            env[P(lhs)] = v
        des, idx = env.get(des_name), env.get(IDX)
        rets = [e for _, _, e in fn.all_events() if e.get("k") == "return" and "nullopt" not in T(e.get("e"))]
        returns_index = rets and all(re.search(r"(?<![\w.>])%s(?![\w(])" % re.escape(IDX), T(e["e"])) for e in rets)
        want = (("range", ("F", 1), ("L", 0)), ("F", 0)) if name == "pop_left" else (("range", ("F", 0), ("L", -1)), ("L", -1))
        if (des, idx) == want and returns_index:
            rep.ok(rid, fn, "%s: installs %s and returns %s - exactly the index removed from the range" % (name, fmt(des), fmt(idx)))
        else:
            rep.bad(rid, fn, fn.loc, name + ":offsets", "%s installs %s and returns %s (expected %s / %s): the returned index is not the one removed from the range" % (name, fmt(des), fmt(idx), fmt(want[0]), fmt(want[1])))
    nmod = 0
    for f in D.find("^" + CIQ + "::", pattern=False):
        short = f.qname.rsplit("::", 1)[-1]
        for b, i, ev in f.all_events():
            if ev.get("k") == "call" and ev.get("recv") is not None and RNG is not None and P(ev["recv"]) == RNG and callee_short(ev) not in ("load",):
                nmod += 1
                if callee_short(ev).startswith("compare_exchange") or short in ("reset", "contiguous_index_queue", "operator="):
                    rep.ok(rid, f, "current_range changed by %s in %s" % (callee_short(ev), short))
                else:
                    rep.bad(rid, f, loc_of(ev), "range-" + callee_short(ev), "current_range is modified by %s() outside reset/construction: concurrent pops are overwritten" % callee_short(ev))
    if nmod < 3:
        raise AnalysisBroken("index queue: only %d modifications of current_range found" % nmod)


def fmt(v):
    if v is None:
        return "?"
    if v[0] == "range":
        return "[%s, %s)" % (fmt(v[1]), fmt(v[2]))
    if v[0] == "const":
        return str(v[1])
    return {"F": "first", "L": "last"}[v[0]] + ("%+d" % v[1] if v[1] else "")


def run(rep, tier):
    from .common import unknown_helpers_are_not_violations
    # next_tag is part of today's tree (it was added with the repair b87fcb9 and is read in place on purpose)
    unknown_helpers_are_not_violations(rep, ("C17.R1", "C17.R2", "C17.R4", "C17.R8", "C17.R9", "C17.R10"), allow=("pika::concurrency::detail::deque::next_tag",))
    rep.rule("C17.R1", "K4/K5: index queue: empty re-tested before every CAS; nullopt only when empty; value only after CAS; range only via CAS")
    rep.rule("C17.R2", "offsets: pop_left returns first / installs [first+1,last); pop_right returns last-1 / installs [first,last-1)")
    rep.rule("C17.R3", "K9: range fits a lock-free 64-bit atomic")
    rep.rule("C17.R4", "K8/K6: deque: every anchor/link CAS changes the tag; success reported only after a successful anchor CAS; unstable push followed by stabilize")
    rep.rule("C17.R7", "K8 (interface agreement with boost's freelist_stack): the free lists behind the lock-free deque allocate and deallocate nodes with ThreadSafe = true")
    rep.rule("C17.R11", "K3 (vendored FIFO queue, pairing on failure paths): ImplicitProducer::enqueue appends an entry to the producer's block index (insert_block_index_entry) before it "
             "has a block and a constructed element for it; every way out that does not publish the element - no block available (return false), the element's constructor threw "
             "(rethrow) - takes the entry back with rewind_block_index_tail(). A phantom entry with a null block shifts every later look-up by one: pops return other blocks' "
             "elements, the real ones are lost, then a null block is dereferenced")
    rep.rule("C17.R12", "K5 (vendored FIFO queue: a block has one owner): try_get_block_from_initial_pool hands out block 'index' of the pre-allocated pool only when this call "
             "claimed that index with an atomic read-modify-write: the index is the value fetch_add returned, or the function is on the success edge of a compare-exchange "
             "on the pool index. An index that was merely read (or refreshed by a failed exchange) is handed to two producers, which then write their elements into the same "
             "slots: elements are lost and returned twice")
    rep.rule("C17.R6", "K8 (vendored FIFO queue, one structural clause only): when a producer's circular block index grows, the old ring is copied in logical order - the source position starts from the ring's tail and wraps around - not as a flat array (after the ring has rotated a flat copy permutes the blocks: FIFO order breaks, blocks are released early)")
    rep.rule("C17.R5", "K8: back-ends: one container operation per push/pop path; LIFO/FIFO/steal ends")
    index_queue_rules(rep, "C17.R1")
    # R2 is reported inside index_queue_rules under the same id; mirror counts for the floor
    rep.instances["C17.R2"] += 2
    n, failed = witness(rep, "C17.R3", driver("../witness/C17.cpp"))
    for _ in range(n - failed):
        rep.ok("C17.R3", "witness:C17.cpp", "static_assert holds")
    D = load(rep)
    DQ = "pika::concurrency::detail::deque"
    fns = [f for f in D.find("^" + DQ + "::", pattern=False) if f.parent == -1]
    if len(fns) < 8:
        raise AnalysisBroken("deque<int> members not instantiated")
    ncas = 0
    for fn in fns:
        short = fn.qname.rsplit("::", 1)[-1]
        ff = None
        for b, i, ev in fn.all_events():
            if ev.get("k") != "call" or callee_short(ev) != "cas":
                continue
            ncas += 1
            exp = P(ev["args"][0])
            new = strip(ev["args"][1])
            if new.get("k") == "var":
                ini = reaching_init(fn, new["name"], (b, i)) or local_init(fn, new["name"])
                ctor = [e for _, _, e in fn.all_events() if e.get("k") == "ctor" and e.get("var") == new["name"]]
                new = strip(ini) if ini is not None and strip(ini).get("k") == "construct" else (ctor[0] if ctor else new)
            args = new.get("args", []) if isinstance(new, dict) else []
            if not args:
                raise AnalysisBroken("%s: cannot see the value installed by %s" % (fn.qname, T(ev)))
            tag = T(strip(args[-1]))
            recv = P(ev.get("recv"))
            getter = "get_right_tag" if recv.endswith("anchor_") else "get_tag"
            m = re.match(r"^\(%s\.%s\(\) ([+-]) (\d+)\)$" % (re.escape(exp), getter), tag)
            if m and int(m.group(2)) != 0:
                rep.ok("C17.R4", fn, "%s: CAS at %s installs tag %s (changed)" % (short, loc_of(ev), tag))
            else:
                rep.bad("C17.R4", fn, loc_of(ev), "%s:tag:%s" % (short, recv.rsplit(".", 1)[-1].rsplit(">", 1)[-1]),
                        "the compare-exchange installs tag %s, which is not the expected word's tag plus a non-zero constant: an ABA change of the %s goes unnoticed "
                        "(an element can be popped twice or lost)" % (tag, "anchor" if recv.endswith("anchor_") else "node link"))
        if short in ("push_left", "push_right", "pop_left", "pop_right") and any(p["type"].endswith("&") or "int" == p["type"] for p in fn.params):
            ff = FactFlow(fn)
            for b, i, ev in fn.all_events():
                if ev.get("k") == "return" and (b, i) in ff.before and T(strip(ev.get("e"))) == "true":
                    fb = ff.before[(b, i)]
                    if any(t and ".cas(" in a and "anchor_" in a for a, t in fb):
                        rep.ok("C17.R4", fn, "%s reports success only after a successful anchor compare-exchange" % short)
                    else:
                        rep.bad("C17.R4", fn, loc_of(ev), short + ":true-without-cas", "%s returns true without a successful anchor compare-exchange" % short)
            # an anchor CAS that relinks a deque of >= 2 nodes (not the empty -> one-node push, not the one-node -> empty
            # pop) reads a neighbour link of an end node; that link is only valid once a pending push on *either* end has
            # been stabilised, so the CAS must sit on the 'status == stable' edge; every other status goes to stabilize()
            for b, i, ev in fn.all_events():
                if ev.get("k") == "call" and callee_short(ev) == "cas" and P(ev.get("recv")).endswith("anchor_"):
                    fb = ff.before.get((b, i)) or frozenset()
                    nonempty = any((not t) and re.match(r"^(lrs\.get_(left|right)_ptr\(\) == nullptr|nullptr == lrs\.get_(left|right)_ptr\(\))$", a) for a, t in fb)
                    single = any(t and a in ("lrs.get_left_ptr() == lrs.get_right_ptr()", "lrs.get_right_ptr() == lrs.get_left_ptr()") for a, t in fb)
                    if not nonempty or single:
                        continue
                    if any(t and re.match(r"^lrs\.get_left_tag\(\) == (pika::concurrency::detail::)?stable$", a) for a, t in fb):
                        rep.ok("C17.R4", fn, "%s: the multi-node anchor CAS at %s is attempted only when the status is stable" % (short, loc_of(ev)))
                    else:
                        rep.bad("C17.R4", fn, loc_of(ev), short + ":cas-unstable", "%s relinks a deque of two or more nodes while a push on the other end may "
                                "still be unstabilised (the status is not known to be 'stable' at the CAS): it reads a neighbour link that has not "
                                "been written yet - elements are lost / duplicated, pops fail on a non-empty deque" % short)
            if short.startswith("push"):
                # the status written with the new end node names the end that is unfinished: other threads that meet the anchor before
                # the pusher's own stabilisation dispatch on it (stabilize(): rpush -> stabilize_right, otherwise stabilize_left)
                side = "lpush" if short == "push_left" else "rpush"
                sts = []
                for _, _, e in fn.all_events():
                    if e.get("k") == "ctor" and str(e.get("rec", "")).endswith("anchor_pair") or (e.get("k") == "ctor" and "tagged_ptr_pair" in str(e.get("rec", ""))):
                        a_ = e.get("args") or []
                        if len(a_) == 4:
                            sts.append((e, T(strip(a_[2])).rsplit("::", 1)[-1]))
                unst = [(e, v) for e, v in sts if v in ("lpush", "rpush")]      # a status copied from the observed anchor (empty -> one node) is not a new status
                if not unst:
                    raise AnalysisBroken("%s: no anchor with an unstable status is constructed" % fn.qname)
                for e, v in unst:
                    if v == side:
                        rep.ok("C17.R4", fn, "%s marks the deque '%s' when it links a node to a non-empty deque" % (short, side))
                    else:
                        rep.bad("C17.R4", fn, loc_of(e), short + ":status", "%s installs an anchor with status '%s' (must be '%s'): a concurrent operation that meets this anchor stabilises "
                                "the wrong end and declares the deque stable with the new node's inward link unset - elements are lost and handed out twice" % (short, v, side))
                want = "stabilize_left" if short == "push_left" else "stabilize_right"
                st = [(b, i, ev) for b, i, ev in fn.all_events() if ev.get("k") == "call" and callee_short(ev) == want]
                if st and any(t and ".cas(" in a for a, t in (ff.before.get((st[0][0], st[0][1])) or frozenset())):
                    rep.ok("C17.R4", fn, "%s: the unstable anchor it installed is followed by %s" % (short, want))
                else:
                    rep.bad("C17.R4", fn, fn.loc, short + ":stabilize", "%s must call %s after installing an unstable anchor" % (short, want))
    if ncas < 10:
        raise AnalysisBroken("deque: only %d cas sites found" % ncas)
    # ---- R9: what the deque operations report and hand out
    rep.rule("C17.R9", "K4/K7 (result agreement): a deque pop hands the payload of the node it unlinked to the caller (r = data) and returns true exactly on the paths where its anchor "
             "compare-exchange succeeded, false only after seeing the deque empty; a push returns true exactly after its anchor compare-exchange succeeded; a failed "
             "compare-exchange leads back to a re-read of the anchor (the operation is a retry loop); the link repair of stabilize_left/right installs the observed tag + 1")
    from engine.kinds import guarded_returns as _gr9, loop_of as _lo9
    n9 = 0
    for short in ("pop_left", "pop_right", "push_left", "push_right"):
        fs = [f for f in D.find(r"^pika::concurrency::detail::deque::%s$" % short, pattern=False) if f.parent == -1 and any(
            e.get("k") == "call" and callee_short(e) == "cas" for _, _, e in f.all_events())]
        if not fs:
            raise AnalysisBroken("deque::%s (the overload that performs the exchange) not instantiated" % short)
        fn = fs[0]
        ff9 = FactFlow(fn)
        cas = [(b, i, e) for b, i, e in fn.all_events() if e.get("k") == "call" and callee_short(e) == "cas" and P(e.get("recv")).endswith("anchor_")]
        for b, i, e in cas:
            n9 += 1
            if _lo9(fn, b) is None:
                rep.bad("C17.R9", fn, loc_of(e), short + ":no-retry", "%s attempts its anchor compare-exchange outside a retry loop: when the exchange fails because another thread changed "
                        "the anchor the operation gives up (a push reports failure / a pop reports an empty deque although elements are present)" % short)
            else:
                rep.ok("C17.R9", fn, "%s: the anchor exchange at %s sits in a retry loop" % (short, loc_of(e)))
        for leaf, fb, ev in _gr9(fn, ff9):
            v = strip(leaf)
            if v.get("k") != "lit":
                continue
            won = any(t and ".cas(" in a and "anchor_" in a for a, t in fb)
            empty = any(t and re.search(r"get_(left|right)_ptr\(\) == nullptr|nullptr == .*get_(left|right)_ptr\(\)", a) for a, t in fb)
            nomem = any(t and re.search(r"^(n|\w+) == nullptr$|^nullptr == \w+$", a) for a, t in fb)
            n9 += 1
            if v.get("v") is True and not won:
                pass      # reported by R4 (true-without-cas)
            elif v.get("v") is False and won:
                rep.bad("C17.R9", fn, loc_of(ev), short + ":false-after-cas", "%s returns false on a path where its anchor compare-exchange succeeded: the element was %s but the caller is told "
                        "the operation failed (%s)" % (short, "unlinked" if short.startswith("pop") else "linked in", "it is lost" if short.startswith("pop") else "it will be pushed again: duplicate"))
            elif v.get("v") is False and short.startswith("pop") and not empty:
                rep.bad("C17.R9", fn, loc_of(ev), short + ":false-not-empty", "%s returns false on a path that has not seen the deque empty" % short)
            elif v.get("v") is False and short.startswith("push") and not nomem:
                rep.bad("C17.R9", fn, loc_of(ev), short + ":false-not-oom", "%s returns false although the node was allocated" % short)
            else:
                rep.ok("C17.R9", fn, "%s: return %s at %s agrees with the exchange" % (short, v.get("v"), loc_of(ev)))
        if short.startswith("pop") and fn.params:
            outp = fn.params[0]["name"]
            wr = lambda e: (e.get("k") == "call" and e.get("op") == "=" and e.get("recv") is not None and P(e["recv"]) in (outp, "*" + outp) and "->data" in T(e["args"][0])) or \
                (e.get("k") == "write" and P(e["lhs"]) in (outp, "*" + outp) and "->data" in T(e.get("rhs")))
            for b, i, e in fn.all_events():
                if e.get("k") == "return" and strip(e.get("e")).get("k") == "lit" and strip(e.get("e")).get("v") is True:
                    n9 += 1
                    if precedes_on_all_paths(fn, wr, (b, i), reset_pred=lambda x: x.get("k") == "call" and callee_short(x) == "lrs"):
                        rep.ok("C17.R9", fn, "%s hands the unlinked node's payload to the caller before reporting success" % short)
                    else:
                        rep.bad("C17.R9", fn, loc_of(e), short + ":payload-not-returned", "%s reports success without having stored the unlinked node's data in the caller's object "
                                "(since the last anchor load): the element is consumed but the caller receives a stale / default value" % short)
    for short in ("pop_left", "pop_right"):
        fs = [f for f in D.find(r"^pika::concurrency::detail::deque::%s$" % short, pattern=False) if f.parent == -1 and any(
            e.get("k") == "call" and callee_short(e) == "cas" for _, _, e in f.all_events())]
        fn = fs[0]
        outp = fn.params[0]["name"] if fn.params else "r"
        rd = lambda e: (e.get("k") == "call" and e.get("op") == "=" and "->data" in T((e.get("args") or [{}])[0])) or (e.get("k") == "write" and "->data" in T(e.get("rhs")))
        for b, i, e in fn.all_events():
            if e.get("k") == "call" and callee_short(e) == "dealloc_node":
                n9 += 1
                if precedes_on_all_paths(fn, rd, (b, i), reset_pred=lambda x: x.get("k") == "call" and callee_short(x) == "lrs"):
                    rep.ok("C17.R9", fn, "%s reads the payload before the node is given back to the pool" % short)
                else:
                    rep.bad("C17.R9", fn, loc_of(e), short + ":payload-after-free", "%s gives the unlinked node back to the pool before (or without) reading its payload: the node can be "
                            "reused by a concurrent push, the caller receives another element's value" % short)
    for short, side in (("stabilize_left", "left"), ("stabilize_right", "right")):
        fs = [f for f in D.find(r"^pika::concurrency::detail::deque::%s$" % short, pattern=False) if f.parent == -1]
        if not fs:
            raise AnalysisBroken("deque::%s not instantiated" % short)
        fn = fs[0]
        # it gives up early only because the anchor changed or the link repair lost; it repairs the link only when it is stale
        ffs = FactFlow(fn)
        # once-defined locals: 'bool const stale = prevnext.get_ptr() != lrs.get_left_ptr(); if (stale)' reads like the test itself,
        # 'atomic_node_pointer& back_link = prev.get_ptr()->left' like the link
        once = {}
        for _, _, e in fn.all_events():
            if e.get("k") == "decl" and e.get("init") is not None:
                once.setdefault(e["var"], []).append(e["init"])
        wr9 = {P(e["lhs"]) for _, _, e in fn.all_events() if e.get("k") == "write"}
        once = {v: T(i[0]) for v, i in once.items() if len(i) == 1 and v not in wr9}

        def unfold(txt, depth=3):
            # only a fact / receiver that *is* such a local is replaced (prevnext itself stays prevnext)
            for _ in range(depth):
                t0 = txt.strip()
                if t0 in once:
                    txt = once[t0]
                else:
                    break
            return txt
        link_of = lambda e: unfold(P(e.get("recv") or {}) or "")
        for b, i, e in fn.all_events():
            fb = frozenset((unfold(a), t) for a, t in (ffs.before.get((b, i)) or frozenset()))
            if e.get("k") == "return":
                n9 += 1
                chg = any(t and re.search(r"anchor_ != lrs|lrs != .*anchor_", a) for a, t in fb) or any((not t) and re.search(r"anchor_ == lrs|lrs == .*anchor_", a) for a, t in fb)
                lost = any((not t) and "compare_exchange_strong(" in a for a, t in fb)
                if chg or lost:
                    rep.ok("C17.R9", fn, "%s gives up at %s only because the anchor changed / the link repair lost" % (short, loc_of(e)))
                else:
                    rep.bad("C17.R9", fn, loc_of(e), short + ":gives-up", "%s returns early on a path where the anchor was not seen changed and the link repair did not fail: the "
                            "deque is never marked stable again, every later operation spins in stabilize" % short)
            if e.get("k") == "call" and callee_short(e) == "compare_exchange_strong" and re.search(r"->%s$" % side, link_of(e)):
                stale = any(t and re.search(r"prevnext\.get_ptr\(\) != lrs|lrs\.get_\w+_ptr\(\) != prevnext", a) for a, t in fb) or \
                    any((not t) and re.search(r"prevnext\.get_ptr\(\) == lrs|lrs\.get_\w+_ptr\(\) == prevnext", a) for a, t in fb)
                n9 += 1
                if stale:
                    rep.ok("C17.R9", fn, "%s repairs the inward link only when it does not point at the new end node" % short)
                else:
                    rep.bad("C17.R9", fn, loc_of(e), short + ":repair-guard", "%s rewrites the neighbour's link on a path where it was not seen stale (and skips it when it is): the new end node "
                            "is never linked in, the next pop at that end walks past it" % short)
        xs = [(b, i, e) for b, i, e in fn.all_events() if e.get("k") == "call" and callee_short(e) == "compare_exchange_strong" and re.search(r"->%s$" % side, link_of(e))]
        if not xs:
            rep.bad("C17.R9", fn, fn.loc, short + ":no-link-repair", "%s no longer repairs the inward link of the old end node (compare_exchange_strong on ->%s)" % (short, side))
        for b, i, e in xs:
            n9 += 1
            exp = P(e["args"][0])
            new = strip(e["args"][1])
            if isinstance(new, dict) and new.get("k") == "var" and not new.get("param"):
                from engine.kinds import expand_locals as _xl9
                new = strip(_xl9(fn, e["args"][1], depth=1))       # 'node_pointer const repaired(ptr, tag + 1); link.compare_exchange_strong(prevnext, repaired)'
            targs = new.get("args") if isinstance(new, dict) and new.get("k") == "construct" else None
            okt = False
            if targs and len(targs) >= 2:
                try:
                    okt = eval_tree(targs[1], {exp + ".get_tag()": 7}) == 8
                except Exception:
                    okt = False
            if okt:
                rep.ok("C17.R9", fn, "%s installs the observed link tag + 1" % short)
            else:
                rep.bad("C17.R9", fn, loc_of(e), short + ":link-tag", "%s repairs the link with %s, whose tag is not the observed tag + 1: a concurrent helper's identical repair (ABA) is not told apart" % (short, T(e["args"][1])))
    if n9 < 20:
        raise AnalysisBroken("C17.R9 examined only %d instances" % n9)

    # ---- R10: every link value a helper acts on was read while the unstable anchor was still current
    rep.rule("C17.R10", "K8 (validated reads of Michael's deque): stabilize_left/right re-compare the anchor with the value the caller observed after each link load and before "
             "acting on the loaded value - before dereferencing the neighbour pointer it loaded, and between loading the neighbour's inward link and repairing it with a "
             "compare-exchange. Without the second comparison a delayed helper repairs a link it read after the push had already been stabilised, popped and replaced: the "
             "neighbour then points at a freed node (elements lost / returned twice)")
    n10 = 0
    for short, side in (("stabilize_left", "left"), ("stabilize_right", "right")):
        fn = [f for f in D.find(r"^pika::concurrency::detail::deque::%s$" % short, pattern=False) if f.parent == -1][0]
        chk = set()
        for b in fn.blocks.values():
            ct = T(b.cond) if b.cond else ""
            if "anchor_" in ct and "lrs" in ct:
                for i, e in enumerate(b.events):
                    if e.get("k") == "read" and T(e["e"]).endswith("anchor_"):
                        chk.add((b.id, i))
        if not chk:
            rep.bad("C17.R10", fn, fn.loc, short + ":no-validation", "%s never compares the anchor with the observed value" % short)
            continue
        pos_of = {id(e): (b, i) for b, i, e in fn.all_events()}
        is_chk = lambda e: pos_of.get(id(e)) in chk
        # receivers are read through once-defined locals: 'node* const leftmost = lrs.get_left_ptr(); leftmost->right.load()',
        # 'atomic_node_pointer& back_link = prev.get_ptr()->left; back_link.load()'
        once10 = {}
        for _, _, e_ in fn.all_events():
            if e_.get("k") == "decl" and e_.get("init") is not None:
                once10.setdefault(e_["var"], []).append(e_["init"])
        wr10 = {P(e_["lhs"]) for _, _, e_ in fn.all_events() if e_.get("k") == "write"}
        once10 = {v: T(i_[0]) for v, i_ in once10.items() if len(i_) == 1 and v not in wr10 and v not in ("prev", "prevnext")}

        def recvt(e, once10=once10):
            t = P(e.get("recv") or {}) or ""
            for _ in range(3):
                m_ = re.match(r"^([A-Za-z_]\w*)(.*)$", t)
                if m_ and m_.group(1) in once10:
                    t = once10[m_.group(1)] + m_.group(2)
                else:
                    break
            return t
        is_load = lambda e: e.get("k") == "call" and callee_short(e) == "load" and re.search(r"->(left|right)$", recvt(e))
        loads = [(b, i, e) for b, i, e in fn.all_events() if is_load(e)]
        if len(loads) < 2:
            raise AnalysisBroken("%s: link loads not recognised" % short)
        targets = [(b, i, e, "dereferences the neighbour pointer it loaded") for b, i, e in loads if not recvt(e).startswith("lrs.")]
        targets += [(b, i, e, "repairs the link") for b, i, e in fn.all_events() if e.get("k") == "call" and callee_short(e) == "compare_exchange_strong"
                    and re.search(r"->%s$" % side, recvt(e))]
        for b, i, e, what in targets:
            n10 += 1
            if precedes_on_all_paths(fn, is_chk, (b, i), reset_pred=is_load):
                rep.ok("C17.R10", fn, "%s re-validates the anchor between its last link load and the point (%s) where it %s" % (short, loc_of(e), what))
            else:
                rep.bad("C17.R10", fn, loc_of(e), short + ":unvalidated-read", "%s %s at %s without comparing the anchor with the observed value after the preceding link load: the loaded "
                        "value may belong to a later state of the deque (the push already stabilised, its node popped and freed), the repair then links a freed node back in" % (short, what, loc_of(e)))
    if n10 < 4:
        raise AnalysisBroken("C17.R10 examined only %d instances" % n10)

    # ---- R8: link tags keep counting when a node is recycled
    rep.rule("C17.R8", "K8 (ABA across node reuse): deque nodes are recycled through a LIFO free list, and a thread delayed inside stabilize_left/right may still hold a "
             "(pointer, tag) pair read from a link of a node's previous life.  The tags of a node's links therefore continue from the value found in the recycled "
             "memory: alloc_node constructs the node with tags derived from the chunk's old links, and the pre-publication stores of push_left/push_right keep "
             "counting (no link is ever written with a fresh tag 0) - otherwise the stale compare-exchange succeeds on a recycled node: elements are lost, "
             "duplicated, the free list is corrupted")
    from engine.kinds import derives_from as _dfr
    from engine.core import subexprs as _sx8
    n8 = 0
    seen8 = set()
    for fn in D.find(r"^pika::concurrency::detail::deque::alloc_node$", pattern=False):
        if fn.parent != -1:
            continue
        sig = tuple(p_.get("type") for p_ in fn.params)
        if sig in seen8:
            continue
        seen8.add(sig)
        alloc = [e.get("var") for _, _, e in fn.all_events() if e.get("k") == "decl" and e.get("init") is not None and "allocate(" in T(e["init"])]
        ctors = [e for _, _, e in fn.all_events() if e.get("k") == "ctor" and str(e.get("rec", "")).endswith("deque_node") and len(e.get("args") or []) == 5]
        if not alloc or not ctors:
            raise AnalysisBroken("deque::alloc_node: allocation / node construction not found")
        # the chunk, under every local name it is known by ('node* storage = reserve_node()' with the allocation in a spliced-in helper)
        chs = set(alloc) | {e.get("var") for _, _, e in fn.all_events() if e.get("k") == "decl" and e.get("init") is not None and "*" in str(e.get("type", ""))
                            and _dfr(fn, e["init"], lambda t: "allocate(" in t)}
        n8 += 1
        from_old = lambda t, side: any(("%s->%s" % (c, side)) in t for c in chs)          # the old content of that link (read before the node is constructed over it)
        okl = _dfr(fn, ctors[0]["args"][3], lambda t: from_old(t, "left")) or from_old(T(ctors[0]["args"][3]), "left")
        okr = _dfr(fn, ctors[0]["args"][4], lambda t: from_old(t, "right")) or from_old(T(ctors[0]["args"][4]), "right")
        if okl and okr:
            rep.ok("C17.R8", fn, "a recycled node continues the tags found in its old links")
        else:
            rep.bad("C17.R8", fn, loc_of(ctors[0]), "tags-restart:alloc_node", "deque::alloc_node constructs the (possibly recycled) node with link tags (%s, %s) that do not continue "
                    "from the tags stored in the recycled memory: a delayed stabilize_left/right compare-exchange that still expects (old neighbour, small tag) "
                    "succeeds on the node's next life" % (T(ctors[0]["args"][3]), T(ctors[0]["args"][4])))
    for short, side in (("push_left", "right"), ("push_right", "left")):
        fs = [f for f in D.find(r"^pika::concurrency::detail::deque::%s$" % short, pattern=False) if f.parent == -1]
        if not fs:
            raise AnalysisBroken("deque::%s not instantiated" % short)
        fn = fs[0]
        sts = [(b, i, e) for b, i, e in fn.all_events() if e.get("k") == "call" and callee_short(e) == "store" and re.search(r"->%s$" % side, P(e.get("recv") or {}))]
        if not sts:
            raise AnalysisBroken("deque::%s: pre-publication store to the new node's %s link not found" % (short, side))
        for b, i, e in sts:
            n8 += 1
            cons = [x for x in _sx8(e["args"][0], lambda y: isinstance(y, dict) and y.get("k") in ("construct", "ctor", "call"))]
            a0 = strip(e["args"][0])
            targs = a0.get("args") if isinstance(a0, dict) and a0.get("k") == "construct" else None
            link = P(e["recv"])
            keeps = targs is not None and len(targs) >= 2 and (link in T(targs[1]) or _dfr(fn, targs[1], lambda t, link=link: link in t and "get_tag" in t))
            if keeps:
                rep.ok("C17.R8", fn, "%s: the new node's %s link is written with a tag continued from its old value" % (short, side))
            else:
                rep.bad("C17.R8", fn, loc_of(e), "tags-restart:" + short, "%s writes the new node's %s link as %s - with a fresh tag instead of one continued from the link's old value: "
                        "see alloc_node (stale stabilisation CAS succeeds after the node was recycled)" % (short, side, T(e["args"][0])))
    if n8 < 4:
        raise AnalysisBroken("C17.R8: only %d sites examined" % n8)

    # stabilize(): dispatch on the recorded status
    stz = [f for f in D.find(r"^pika::concurrency::detail::deque::stabilize$", pattern=False) if f.parent == -1]
    if not stz:
        raise AnalysisBroken("deque::stabilize not instantiated")
    fz = stz[0]
    ffz = FactFlow(fz)
    okz = 0
    for b, i, e in fz.all_events():
        if e.get("k") == "call" and callee_short(e) in ("stabilize_left", "stabilize_right"):
            fb = ffz.before.get((b, i)) or frozenset()
            r_ = [t for a, t in fb if re.search(r"get_left_tag\(\) == (pika::concurrency::detail::)?rpush$|^(pika::concurrency::detail::)?rpush == .*get_left_tag\(\)$", a)]
            l_ = [t for a, t in fb if re.search(r"get_left_tag\(\) == (pika::concurrency::detail::)?lpush$|^(pika::concurrency::detail::)?lpush == .*get_left_tag\(\)$", a)]
            right = callee_short(e) == "stabilize_right"
            good = (right and (True in r_ or False in l_)) or ((not right) and (False in r_ or True in l_))
            if not good:
                # 'switch (lrs.get_left_tag()) { case rpush: stabilize_right(lrs); break; default: stabilize_left(lrs); }'
                preds = [(pb, lab, meta) for pb in fz.blocks.values() for lab, tgt, meta in pb.succ if tgt == b]
                srcs = {pb.id for pb, _, _ in preds}
                if len(srcs) == 1 and preds[0][0].cond is not None and T(preds[0][0].cond).endswith("get_left_tag()"):
                    sw = preds[0][0]
                    name_of = lambda meta: (strip(meta.get("case") or {}) or {}).get("name")
                    here = {name_of(meta) for _, lab, meta in preds if lab == "case"}
                    dflt_here = any(lab == "default" for _, lab, _ in preds)
                    elsewhere = {name_of(meta) for lab, tgt, meta in sw.succ if lab == "case" and tgt != b}
                    if right:
                        good = here == {"rpush"} and not dflt_here
                    else:
                        good = (here == {"lpush"} and not dflt_here) or (dflt_here and here <= {"lpush"} and "rpush" in elsewhere)
            if good:
                okz += 1
                rep.ok("C17.R4", fz, "stabilize dispatches to %s for status %s" % (callee_short(e), "rpush" if right else "lpush"))
            else:
                rep.bad("C17.R4", fz, loc_of(e), "stabilize-dispatch", "deque::stabilize calls %s on a path where the status is not known to be %s" % (callee_short(e), "rpush" if right else "lpush"))
    if okz < 2 and not any(v.rule == "C17.R4" and "stabilize-dispatch" in v.key for v in rep.violations):
        raise AnalysisBroken("deque::stabilize: dispatch not recognised")

    # ---- R5
    table = {"lockfree_lifo_backend": ("lifo", False), "lockfree_abp_fifo_backend": ("fifo", True), "lockfree_abp_lifo_backend": ("lifo", True)}
    ops = ("push_left", "push_right", "pop_left", "pop_right", "enqueue", "try_dequeue")
    for be in ["lockfree_fifo_backend"] + list(table):
        fs = [f for f in D.find(r"^pika::threads::detail::%s::(push|pop)$" % be, pattern=False) if f.parent == -1]
        if len(fs) < 3:
            raise AnalysisBroken("%s: push/pop not instantiated" % be)
        ends = {}
        for fn in fs:
            short = fn.qname.rsplit("::", 1)[-1]
            is_op = lambda e: e.get("k") == "call" and callee_short(e) in ops and P(e.get("recv")) == "this->queue_"
            cf = CountFlow(fn, lambda ev, pos: 1 if is_op(ev) else 0)
            if cf.exits == frozenset([1]):
                rep.ok("C17.R5", fn, "%s::%s performs exactly one container operation on every path" % (be, short))
            else:
                rep.bad("C17.R5", fn, fn.loc, "%s:%s:count" % (be, short), "%s::%s performs %s container operations" % (be, short, sorted(cf.exits)))
            ff = FactFlow(fn)
            for b, i, ev in fn.all_events():
                if is_op(ev):
                    fb = ff.before.get((b, i)) or frozenset()
                    flag = None
                    for a, t in fb:
                        if a in ("steal", "other_end"):
                            flag = t
                    ends.setdefault(short, {})[flag] = callee_short(ev).split("_")[-1]
        if be in table:
            kind, abp = table[be]
            push_end = ends.get("push", {}).get(False) or ends.get("push", {}).get(None)
            pop_owner = ends.get("pop", {}).get(False) or ends.get("pop", {}).get(None)
            pop_steal = ends.get("pop", {}).get(True) or ends.get("pop", {}).get(None)
            good = push_end and pop_owner and ((kind == "lifo") == (push_end == pop_owner))
            if abp:
                good = good and pop_steal and pop_steal != pop_owner
            if good:
                rep.ok("C17.R5", be, "%s: push at %s, owner pops %s, thief pops %s" % (be, push_end, pop_owner, pop_steal))
            else:
                rep.bad("C17.R5", be, fs[0].loc, be + ":ends", "%s: push at %s, owner pops %s, thief pops %s - does not match its %s%s discipline" % (be, push_end, pop_owner, pop_steal, kind, " + steal-from-the-other-end" if abp else ""))

    # ---- R7: node recycling of the deque goes through the thread-safe operations of boost's freelist_stack
    # (template <bool ThreadSafe, bool Bounded> allocate, template <bool ThreadSafe> deallocate: ThreadSafe selects the
    # atomic implementation; the other one is documented for single-threaded use)
    FL = facts(rep, driver("c17_queues.cpp"), [r"^pika::concurrency::detail::(caching|static)_freelist::(allocate|deallocate)$"])
    fl = [f for f in FL.fns if not f.pattern and f.parent == -1]
    if len(fl) < 2:
        raise AnalysisBroken("freelist allocate/deallocate not instantiated")
    for fn in fl:
        ops_ = [e for _, _, e in fn.all_events() if e.get("k") == "call" and callee_of(e).startswith("boost::lockfree::detail::freelist_stack::")]
        if len(ops_) != 1:
            raise AnalysisBroken("%s: expected one freelist_stack operation" % fn.full)
        ta = ops_[0].get("targs")
        if not ta:
            raise AnalysisBroken("%s: template arguments of %s not available" % (fn.full, callee_of(ops_[0])))
        if ta[0] == "true":
            rep.ok("C17.R7", fn, "%s -> %s<%s>: the thread-safe implementation" % (fn.qname.rsplit("::", 2)[-2] + "::" + fn.qname.rsplit("::", 1)[-1], callee_short(ops_[0]), ", ".join(ta)))
        else:
            rep.bad("C17.R7", fn, loc_of(ops_[0]), "freelist-not-thread-safe:" + fn.qname.rsplit("::", 2)[-2] + "::" + fn.qname.rsplit("::", 1)[-1],
                    "%s calls %s<%s>: ThreadSafe = %s selects boost's non-atomic free-list operation, while the deque recycles nodes from several threads at once - a node that another "
                    "thread has just allocated is linked back into the free list and handed out twice (elements duplicated / lost, pops fail on a non-empty deque)"
                    % (fn.qname.rsplit("::", 2)[-2] + "::" + fn.qname.rsplit("::", 1)[-1], callee_short(ops_[0]), ", ".join(ta), ta[0]))

    # ---- R11: the block index entry is taken back on every failure path
    ENQ = facts(rep, driver("c17_queues.cpp"), [r"ConcurrentQueue::ImplicitProducer::enqueue$"])
    enq = [f for f in ENQ.fns if f.pattern and f.parent == -1 and f.qname.endswith("ImplicitProducer::enqueue")]
    if not enq:
        raise AnalysisBroken("ConcurrentQueue::ImplicitProducer::enqueue (template pattern) not found")
    n11 = 0
    for fn in enq:
        ins = [(b, i, e) for b, i, e in fn.all_events() if e.get("k") == "call" and callee_short(e) == "insert_block_index_entry"]
        if not ins:
            raise AnalysisBroken("ImplicitProducer::enqueue: insert_block_index_entry not found")
        is_ins = lambda e: e.get("k") == "call" and callee_short(e) == "insert_block_index_entry"
        is_rew = lambda e: e.get("k") == "call" and callee_short(e) == "rewind_block_index_tail"
        ff11 = FactFlow(fn)
        for b, i, e in fn.all_events():
            failing = (e.get("k") == "return" and T(e.get("e")) == "false") or (e.get("k") == "throw")
            if not failing or not precedes_on_all_paths(fn, is_ins, (b, i)):
                continue
            fb = ff11.before.get((b, i)) or frozenset()
            if any((not t) and "insert_block_index_entry(" in a for a, t in fb):
                continue                    # the insert itself failed: nothing to take back
            n11 += 1
            if precedes_on_all_paths(fn, is_rew, (b, i), reset_pred=is_ins):
                rep.ok("C17.R11", fn, "the failure exit at %s takes the block index entry back" % loc_of(e).rsplit("/", 1)[-1])
            else:
                rep.bad("C17.R11", fn, loc_of(e), "index-entry-not-rewound:" + ("throw" if e.get("k") == "throw" else "return"), "ImplicitProducer::enqueue leaves at %s (%s) after "
                        "insert_block_index_entry succeeded without rewind_block_index_tail(): the block index keeps a phantom entry with a null block, the next push at a block "
                        "boundary appends a second entry with the same key and every queued element of this producer is looked up one slot off" % (
                            loc_of(e).rsplit("/", 1)[-1], "the element's constructor threw" if e.get("k") == "throw" else "no block"))
    if n11 < 2:
        raise AnalysisBroken("C17.R11: only %d failure exits behind insert_block_index_entry found" % n11)

    # ---- R12: a pool block is claimed before it is handed out
    IP = facts(rep, driver("c17_queues.cpp"), [r"ConcurrentQueue::try_get_block_from_initial_pool$"])
    ip = [f for f in IP.fns if f.parent == -1 and not f.pattern and f.qname.endswith("try_get_block_from_initial_pool")]
    if not ip:
        raise AnalysisBroken("ConcurrentQueue::try_get_block_from_initial_pool not instantiated")
    from engine.kinds import reaching_defs as _rd12
    for fn in ip[:1]:
        ff12 = FactFlow(fn)
        rets = [(b, i, e) for b, i, e in fn.all_events() if e.get("k") == "return" and e.get("e") is not None and "initialBlockPool" in T(e["e"]) and "nullptr" != T(strip(e["e"]))]
        if not rets:
            raise AnalysisBroken("try_get_block_from_initial_pool: the return of a pool block was not found")
        bad12 = None
        for b, i, e in rets:
            m = re.search(r"this->initialBlockPool \+ (\w+)", T(e["e"]))
            if not m:
                raise AnalysisBroken("try_get_block_from_initial_pool: pool block expression not recognised (%s)" % T(e["e"])[:80])
            iv = m.group(1)
            claimed = True
            for d in _rd12(fn, iv, (b, i)):
                de = fn.blocks[d[0]].events[d[1]]
                tree = de.get("init") if de.get("k") == "decl" else de.get("rhs")
                if tree is None or "fetch_add(" not in T(tree):
                    claimed = False
            fb = ff12.before.get((b, i)) or frozenset()
            won = any(t and "initialBlockPoolIndex.compare_exchange" in a for a, t in fb)
            if not (claimed or won):
                bad12 = e
        if bad12 is not None:
            rep.bad("C17.R12", fn, loc_of(bad12), "pool-block-unclaimed", "try_get_block_from_initial_pool returns a pool block whose index was not obtained from fetch_add and not on the success edge of a "
                    "compare-exchange on initialBlockPoolIndex: when the exchange fails the refreshed index is handed out unclaimed and the next producer claims the same block")
        else:
            rep.ok("C17.R12", fn, "the index of the pool block handed out is the one this call claimed (fetch_add result / successful exchange)")

    # ---- R6: ring growth of the vendored concurrent queue's implicit producer (the one lockfree_fifo uses)
    NB = [f for f in D.find(r"ConcurrentQueue::ImplicitProducer::new_block_index$") if not f.pattern and f.parent == -1]
    if not NB:
        NBF = facts(rep, driver("c17_queues.cpp"), [r"ConcurrentQueue::ImplicitProducer::new_block_index$"])
        NB = [f for f in NBF.fns if not f.pattern and f.parent == -1]
    if not NB:
        raise AnalysisBroken("ConcurrentQueue::ImplicitProducer::new_block_index not instantiated")
    for fn in NB[:1]:
        bulk = [e for _, _, e in fn.all_events() if e.get("k") == "call" and callee_short(e) in ("copy", "copy_n", "memcpy", "memmove", "uninitialized_copy", "uninitialized_copy_n")
                and "prev->index" in T(e)]
        reads = []
        for b, i, e in fn.all_events():
            if e.get("k") == "write" and e.get("rhs") is not None:
                m = re.search(r"prev->index\[([^\]]+)\]", T(e["rhs"]))
                if m:
                    reads.append((b, i, e, m.group(1)))
        probs = []
        if bulk:
            probs.append("the previous index is copied with %s(...) as a flat array" % callee_short(bulk[0]))
        if not reads and not bulk:
            raise AnalysisBroken("new_block_index: copy of the previous index not recognised")
        for b, i, e, x in reads:
            wraps = [w for _, _, w in fn.all_events() if w.get("k") == "write" and P(w["lhs"]) == x and w.get("rhs") is not None and
                     re.search(r"\(%s \+ 1\) & \(prev->capacity - 1\)" % re.escape(x), T(w["rhs"]))]
            d = [w for _, _, w in fn.all_events() if w.get("k") == "decl" and w.get("var") == x and w.get("init") is not None]
            from_tail = False
            cur = d[0]["init"] if d else None
            for _ in range(3):
                if cur is None:
                    break
                t_ = T(strip(cur))
                if "tail.load(" in t_:
                    from_tail = True
                    break
                d2 = [w for _, _, w in fn.all_events() if w.get("k") == "decl" and w.get("var") == t_ and w.get("init") is not None]
                cur = d2[0]["init"] if d2 else None
            if not wraps or not from_tail:
                probs.append("source position '%s' is not a wrap-around walk starting at the ring's tail (wraps: %s, starts at tail: %s)" % (x, bool(wraps), from_tail))
        if probs:
            rep.bad("C17.R6", fn, loc_of((bulk or [reads[0][2]])[0]), "ring-copy", "ImplicitProducer::new_block_index: %s - once a block has been released the ring has rotated, and the "
                    "grown index maps positions to the wrong blocks (FIFO order violated, elements lost / handed out twice under concurrency)" % "; ".join(probs))
        else:
            rep.ok("C17.R6", fn, "the grown block index is filled by walking the old ring from its tail with wrap-around (%d element copy site(s))" % len(reads))

