#!/bin/sh
# builds the fact extractor from files on disk only (offline)
set -e
cd "$(dirname "$0")"
mkdir -p bin .cache evidence
if [ ! -x bin/pikafacts ] || [ tool/pikafacts.cc -nt bin/pikafacts ]; then
  clang++ $(llvm-config-14 --cxxflags) -std=c++17 -fno-rtti -O1 tool/pikafacts.cc -o bin/pikafacts \
    /usr/lib/llvm-14/lib/libclang-cpp.so.14 /usr/lib/llvm-14/lib/libLLVM-14.so
fi
echo "pikafacts built"
