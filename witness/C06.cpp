// K9 witnesses for C06: lock types are neither copyable nor movable.
#include <pika/concurrency/spinlock.hpp>
#include <pika/synchronization/mutex.hpp>
#include <pika/synchronization/recursive_mutex.hpp>
#include <pika/thread_support/spinlock.hpp>
#include <type_traits>

template <typename T>
inline constexpr bool pinned = !std::is_copy_constructible_v<T> && !std::is_move_constructible_v<T> &&
    !std::is_copy_assignable_v<T> && !std::is_move_assignable_v<T>;

static_assert(pinned<pika::mutex>, "pika::mutex must be neither copyable nor movable");
static_assert(pinned<pika::timed_mutex>, "pika::timed_mutex must be neither copyable nor movable");
static_assert(pinned<pika::detail::recursive_mutex_impl<>>, "recursive_mutex_impl must be neither copyable nor movable");
static_assert(pinned<pika::concurrency::detail::spinlock>, "concurrency spinlock must be neither copyable nor movable");
static_assert(pinned<pika::detail::spinlock>, "pika::detail::spinlock must be neither copyable nor movable");
