// K9 witnesses for C04
#include <pika/execution/async_rw_mutex.hpp>
#include <type_traits>
namespace ex = pika::execution::experimental;
using M = ex::async_rw_mutex<int>;
using MV = ex::async_rw_mutex<>;
static_assert(!std::is_copy_constructible_v<M::readwrite_access_type>, "readwrite access wrapper must not be copyable");
static_assert(!std::is_copy_assignable_v<M::readwrite_access_type>, "readwrite access wrapper must not be copy assignable");
static_assert(std::is_move_constructible_v<M::readwrite_access_type>, "readwrite access wrapper is movable");
static_assert(std::is_copy_constructible_v<M::read_access_type>, "read access wrapper is copyable");
static_assert(!std::is_copy_constructible_v<MV::readwrite_access_type>, "void readwrite access wrapper must not be copyable");
static_assert(std::is_copy_constructible_v<MV::read_access_type>, "void read access wrapper is copyable");
using RW = decltype(std::declval<M&>().readwrite());
using RD = decltype(std::declval<M&>().read());
static_assert(!std::is_copy_constructible_v<RW>, "the readwrite sender must not be copyable");
static_assert(std::is_copy_constructible_v<RD>, "the read sender is copyable");
static_assert(!std::is_copy_constructible_v<M> && !std::is_copy_assignable_v<M>, "async_rw_mutex is not copyable");
static_assert(!std::is_default_constructible_v<M::readwrite_access_type>, "access wrappers cannot be created without a grant");
