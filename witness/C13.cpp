// K9 witnesses for C13
#include <pika/threading/jthread.hpp>
#include <pika/threading/thread.hpp>
#include <type_traits>
static_assert(!std::is_copy_constructible_v<pika::thread>, "pika::thread must not be copyable");
static_assert(!std::is_copy_assignable_v<pika::thread>, "pika::thread must not be copy assignable");
static_assert(std::is_move_constructible_v<pika::thread>, "pika::thread is movable");
static_assert(!std::is_copy_constructible_v<pika::jthread>, "pika::jthread must not be copyable");
static_assert(!std::is_copy_assignable_v<pika::jthread>, "pika::jthread must not be copy assignable");
static_assert(std::is_move_constructible_v<pika::jthread>, "pika::jthread is movable");
