// K9 witnesses for C14
#include <pika/synchronization/stop_token.hpp>
#include <type_traits>
namespace w {
    struct cb
    {
        void operator()() const noexcept {}
    };
}    // namespace w
using SC = pika::stop_callback<w::cb>;
static_assert(!std::is_copy_constructible_v<SC>, "stop_callback must not be copy constructible");
static_assert(!std::is_move_constructible_v<SC>, "stop_callback must not be move constructible");
static_assert(!std::is_copy_assignable_v<SC>, "stop_callback must not be copy assignable");
static_assert(!std::is_move_assignable_v<SC>, "stop_callback must not be move assignable");
static_assert(std::is_nothrow_default_constructible_v<pika::stop_token>, "stop_token() is noexcept");
static_assert(std::is_copy_constructible_v<pika::stop_token> && std::is_copy_constructible_v<pika::stop_source>, "tokens and sources are copyable");
static_assert(std::atomic<std::uint64_t>::is_always_lock_free, "the stop state word must be lock free");
