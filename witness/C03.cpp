// K9 witnesses for C03: operation states are immovable
#include <pika/execution/algorithms/just.hpp>
#include <pika/execution/algorithms/then.hpp>
#include <pika/execution/algorithms/let_value.hpp>
#include <pika/execution/algorithms/split.hpp>
#include <pika/execution/algorithms/when_all.hpp>
#include <pika/execution/algorithms/drop_value.hpp>
#include <type_traits>
namespace ex = pika::execution::experimental;
struct sink
{
    template <typename... Ts> void set_value(Ts&&...) && noexcept {}
    template <typename E> void set_error(E&&) && noexcept {}
    void set_stopped() && noexcept {}
    constexpr ex::empty_env get_env() const& noexcept { return {}; }
};
template <typename S> using op_t = decltype(ex::connect(std::declval<S>(), sink{}));
inline int f(int x) { return x; }
using just_s = decltype(ex::just(1));
using then_s = decltype(ex::then(ex::just(1), &f));
using let_s = decltype(ex::let_value(ex::just(1), [](int&) { return ex::just(); }));
using split_s = decltype(ex::split(ex::just(1)));
using wa_s = decltype(ex::when_all(ex::just(1), ex::just(2)));
using dv_s = decltype(ex::drop_value(ex::just(1)));
static_assert(!std::is_move_constructible_v<op_t<just_s>> && !std::is_copy_constructible_v<op_t<just_s>>, "just operation state must be immovable");
static_assert(!std::is_move_constructible_v<op_t<then_s>> && !std::is_copy_constructible_v<op_t<then_s>>, "then operation state must be immovable");
static_assert(!std::is_move_constructible_v<op_t<let_s>> && !std::is_copy_constructible_v<op_t<let_s>>, "let_value operation state must be immovable");
static_assert(!std::is_move_constructible_v<op_t<split_s>> && !std::is_copy_constructible_v<op_t<split_s>>, "split operation state must be immovable");
static_assert(!std::is_move_constructible_v<op_t<wa_s>> && !std::is_copy_constructible_v<op_t<wa_s>>, "when_all operation state must be immovable");
static_assert(!std::is_move_constructible_v<op_t<dv_s>> && !std::is_copy_constructible_v<op_t<dv_s>>, "drop_value operation state must be immovable");

// drop_operation_state destroys the predecessor's operation state *before* it completes downstream, so the
// values it forwards must be copies: a predecessor that sends an lvalue reference into its own state (split does)
// must arrive downstream as an rvalue of the decayed type, never as a reference into the destroyed state.
#include <pika/execution/algorithms/drop_operation_state.hpp>
struct by_value_sink
{
    template <typename... Ts> void set_value(Ts&&...) && noexcept
    {
        static_assert((!std::is_lvalue_reference_v<Ts> && ...), "drop_operation_state forwards a reference into the operation state it has just destroyed (values must be decayed copies)");
    }
    template <typename E> void set_error(E&&) && noexcept {}
    void set_stopped() && noexcept {}
    constexpr ex::empty_env get_env() const& noexcept { return {}; }
};
inline void instantiate_drop_operation_state()
{
    auto os = ex::connect(ex::drop_operation_state(ex::split(ex::just(1))), by_value_sink{});
    ex::start(os);
}

// split / split_tuple deliver ONE stored result to every consumer: the stored error (and for split also the stored
// values) must reach each consumer as a const lvalue reference (= a copy for whoever keeps it).  Handing it on as an
// rvalue lets the first consumer move the payload out; every later consumer then receives a moved-from error
// (a null exception_ptr) instead of "the same exception".
#include <pika/execution/algorithms/split_tuple.hpp>
#include <tuple>
struct shared_result_sink
{
    template <typename... Ts> void set_value(Ts&&...) && noexcept {}
    template <typename E> void set_error(E&&) && noexcept
    {
        static_assert(std::is_lvalue_reference_v<E> && std::is_const_v<std::remove_reference_t<E>>,
            "split/split_tuple hand the shared stored error to a consumer as a non-const or rvalue reference (the first consumer can move it out; later consumers get a moved-from error)");
    }
    void set_stopped() && noexcept {}
    constexpr ex::empty_env get_env() const& noexcept { return {}; }
};
struct shared_value_sink
{
    template <typename... Ts> void set_value(Ts&&...) && noexcept
    {
        static_assert(((std::is_lvalue_reference_v<Ts> && std::is_const_v<std::remove_reference_t<Ts>>) && ...),
            "split hands the shared stored values to a consumer as non-const or rvalue references (one consumer can modify or move out what the others receive)");
    }
    template <typename E> void set_error(E&&) && noexcept {}
    void set_stopped() && noexcept {}
    constexpr ex::empty_env get_env() const& noexcept { return {}; }
};
inline void instantiate_shared_results()
{
    auto s = ex::split(ex::just(1));
    auto o1 = ex::connect(s, shared_result_sink{});
    ex::start(o1);
    auto o2 = ex::connect(s, shared_value_sink{});
    ex::start(o2);
    auto [a, b] = ex::split_tuple(ex::just(std::tuple<int, double>(1, 2.0)));
    auto o3 = ex::connect(std::move(a), shared_result_sink{});
    ex::start(o3);
    auto o4 = ex::connect(std::move(b), shared_result_sink{});
    ex::start(o4);
}
