// K9 witnesses for C18
#include <pika/execution_base/any_sender.hpp>
#include <pika/functional/function.hpp>
#include <pika/functional/unique_function.hpp>
#include <type_traits>
namespace ex = pika::execution::experimental;
using UF = pika::util::detail::unique_function<void()>;
using F = pika::util::detail::function<void()>;
static_assert(!std::is_copy_constructible_v<UF> && !std::is_copy_assignable_v<UF>, "unique_function must be move-only");
static_assert(std::is_move_constructible_v<UF> && std::is_move_assignable_v<UF>, "unique_function is movable");
static_assert(std::is_copy_constructible_v<F> && std::is_copy_assignable_v<F>, "function is copyable");
static_assert(!std::is_copy_constructible_v<ex::unique_any_sender<int>> && !std::is_copy_assignable_v<ex::unique_any_sender<int>>, "unique_any_sender must be move-only");
static_assert(std::is_move_constructible_v<ex::unique_any_sender<int>>, "unique_any_sender is movable");
static_assert(std::is_copy_constructible_v<ex::any_sender<int>> && std::is_copy_assignable_v<ex::any_sender<int>>, "any_sender is copyable");
static_assert(std::is_constructible_v<ex::unique_any_sender<int>, ex::any_sender<int>&&>, "any_sender converts to unique_any_sender");
