// K9 witnesses for C17
#include <pika/concurrency/detail/contiguous_index_queue.hpp>
#include <pika/concurrency/detail/tagged_ptr_pair.hpp>
#include <atomic>
#include <cstdint>
struct r32
{
    std::uint32_t first = 0;
    std::uint32_t last = 0;
};
static_assert(sizeof(r32) <= 8, "a range of two 32-bit indices fits one 64-bit word");
static_assert(std::atomic<r32>::is_always_lock_free, "the index range must be updated by a lock-free compare-exchange");
static_assert(std::atomic<std::uint64_t>::is_always_lock_free, "64-bit atomics are lock free");
